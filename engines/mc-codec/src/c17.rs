//! C17: CBOR codec and protocol-level token types round-trip deterministically.
//!
//! Group `value`: all `cbor::value::Value` trees with few nodes over a boundary leaf
//! alphabet, nesting chains up to depth 64, CBOR-specific encoding deviations, and the byte
//! neighbourhood of encodings. Group `tokens`: structural value sets of every
//! protocol-level token type, all operation sequences of length <= 3, field-level
//! deviations (mandatory field removed, undeclared field added under both decoding
//! options, wrong major type) and the byte neighbourhood.

use crate::harness::*;
use concordium_base::{
    common::{
        cbor::{self, value::Value, Bytes, CborDeserialize, CborSerialize, SerializationOptions, UnknownMapKeys},
        upward::{CborUpward, Upward},
    },
    contracts_common::{hashes::Hash, AccountAddress},
    protocol_level_tokens::*,
    transactions::Memo,
};
use serde_json::json;
use std::{collections::HashMap, fmt::Debug};

pub const GROUPS: [&str; 2] = ["value", "tokens"];

pub fn run_group(tasks: &mut Tasks, group: &str) {
    // whatever a CBOR decoder of the library accepts must be one well-formed item (RFC 8949 App. C)
    set_wellformed(well_formed_item);
    match group {
        "value" => values(tasks),
        "tokens" => tokens(tasks),
        g => mc_core::machinery_error(&format!("unknown C17 group {g}")),
    }
}

fn dec<T: CborDeserialize>(b: &[u8]) -> Option<(T, usize)> { cbor::cbor_decode::<T>(b).ok().map(|v| (v, b.len())) }

/// structural equality that distinguishes 0.0 from -0.0 (and treats equal NaN bits as equal)
fn veq(a: &Value, b: &Value) -> bool {
    match (a, b) {
        (Value::Float(x), Value::Float(y)) => x.to_bits() == y.to_bits(),
        (Value::Array(x), Value::Array(y)) => x.len() == y.len() && x.iter().zip(y).all(|(p, q)| veq(p, q)),
        (Value::Map(x), Value::Map(y)) => x.len() == y.len() && x.iter().zip(y).all(|(p, q)| veq(&p.0, &q.0) && veq(&p.1, &q.1)),
        (Value::Tag(t, x), Value::Tag(u, y)) => t == u && veq(x, y),
        _ => a == b,
    }
}

fn sweep_cbor<T: CborSerialize + CborDeserialize + Debug>(ctx: &mut Ctx, name: &str, values: Vec<T>, eq: &dyn Fn(&T, &T) -> bool, cost: usize) {
    let enc = |v: &T| cbor::cbor_encode(v).expect("encodable");
    let d = |b: &[u8]| dec::<T>(b);
    let show = |v: &T| format!("{v:?}");
    // CBOR admits several encodings of one data item (integer widths, indefinite lengths):
    // acceptance of a non-canonical form is not an error, but decode . encode must be stable
    let c = Codec { name, enc: &enc, dec: &d, eq, show: &show, canonical: false, alloc_const: 4 << 20, alloc_factor: 64, short_inputs: true, cost };
    sweep(ctx, &c, &values);
    // stability: whatever decodes, re-encodes to something that decodes to the same value
    ctx.extra.insert(format!("values.{name}"), json!(values.len()));
}

fn leaves() -> Vec<Value> {
    let mut out = vec![];
    for n in [0u64, 1, 23, 24, 255, 256, 65535, 65536, u32::MAX as u64, u32::MAX as u64 + 1, u64::MAX] {
        out.push(Value::Positive(n));
        out.push(Value::Negative(n));
    }
    for n in [0usize, 1, 23, 24] {
        out.push(Value::Bytes(Bytes(vec![0xAB; n])));
        out.push(Value::Text("t".repeat(n)));
    }
    out.push(Value::Text("é€".into()));
    // longer than the decoder's 4096-byte read slice, with a two- and a three-byte character
    // straddling the slice boundary
    out.push(Value::Text(format!("{}é{}", "a".repeat(4095), "b".repeat(10))));
    out.push(Value::Text(format!("{}€{}", "a".repeat(4094), "b".repeat(4100))));
    out.push(Value::Bytes(Bytes(vec![0x5A; 4097])));
    // exact multiples of the read slice
    for n in [4096usize, 8192, 12288] {
        out.push(Value::Bytes(Bytes((0..n).map(|i| (i % 253) as u8).collect())));
        out.push(Value::Text("t".repeat(n)));
    }
    out.push(Value::Bool(true));
    out.push(Value::Bool(false));
    out.push(Value::Null);
    for s in [0u8, 19, 32, 255] {
        out.push(Value::Simple(s));
    }
    for f in [0.0f64, -0.0, 1.5, f64::INFINITY, f64::NEG_INFINITY, 1.0e300, f64::MIN_POSITIVE, 65504.0, 5.960464477539063e-8] {
        out.push(Value::Float(f));
    }
    out
}

const TAGS: [u64; 5] = [0, 4, 24, 40307, u32::MAX as u64 + 1];

/// all trees with exactly `n` nodes over the given leaves
fn trees(n: usize, lv: &[Value], memo: &mut HashMap<usize, Vec<Value>>) -> Vec<Value> {
    if let Some(v) = memo.get(&n) {
        return v.clone();
    }
    let mut out = vec![];
    if n == 1 {
        out.extend(lv.iter().cloned());
        out.push(Value::Array(vec![]));
        out.push(Value::Map(vec![]));
    } else {
        // tag over a tree of n-1 nodes
        for t in TAGS {
            for sub in trees(n - 1, lv, memo) {
                out.push(Value::Tag(t, Box::new(sub)));
            }
        }
        // array: the remaining n-1 nodes split over 1 or 2 children
        for sub in trees(n - 1, lv, memo) {
            out.push(Value::Array(vec![sub]));
        }
        for a in 1..n - 1 {
            let b = n - 1 - a;
            if b >= 1 {
                for x in trees(a, lv, memo) {
                    for y in trees(b, lv, memo) {
                        out.push(Value::Array(vec![x.clone(), y.clone()]));
                        out.push(Value::Map(vec![(x.clone(), y)]));
                    }
                }
            }
        }
    }
    memo.insert(n, out.clone());
    out
}

fn header(major: u8, n: u64, width: u8) -> Vec<u8> {
    // width: 0 = immediate, 1, 2, 4, 8 bytes
    let m = major << 5;
    match width {
        0 => vec![m | n as u8],
        1 => vec![m | 24, n as u8],
        2 => {
            let mut v = vec![m | 25];
            v.extend_from_slice(&(n as u16).to_be_bytes());
            v
        }
        4 => {
            let mut v = vec![m | 26];
            v.extend_from_slice(&(n as u32).to_be_bytes());
            v
        }
        _ => {
            let mut v = vec![m | 27];
            v.extend_from_slice(&n.to_be_bytes());
            v
        }
    }
}

/// How `enc_with` writes containers and strings.
#[derive(Clone, Copy, PartialEq, Debug)]
enum Indef {
    None,
    /// byte strings as one indefinite-length string with a single chunk
    BytesOneChunk,
    /// byte strings split into chunks of 1 byte, the rest, and an empty chunk
    BytesSplit,
    Text,
    Arrays,
    Maps,
    All,
}

/// An encoder of the generic data model written from RFC 8949 (independent of the library's).
fn enc_with(v: &Value, mode: Indef, out: &mut Vec<u8>) {
    let all = mode == Indef::All;
    match v {
        Value::Positive(n) => out.extend(min_header(0, *n)),
        Value::Negative(n) => out.extend(min_header(1, *n)),
        Value::Bytes(b) => {
            if mode == Indef::BytesOneChunk || all {
                out.push(0x5f);
                out.extend(min_header(2, b.0.len() as u64));
                out.extend_from_slice(&b.0);
                out.push(0xff);
            } else if mode == Indef::BytesSplit {
                out.push(0x5f);
                let k = b.0.len().min(1);
                out.extend(min_header(2, k as u64));
                out.extend_from_slice(&b.0[..k]);
                out.extend(min_header(2, (b.0.len() - k) as u64));
                out.extend_from_slice(&b.0[k..]);
                out.push(0x40);
                out.push(0xff);
            } else {
                out.extend(min_header(2, b.0.len() as u64));
                out.extend_from_slice(&b.0);
            }
        }
        Value::Text(t) => {
            if mode == Indef::Text || all {
                out.push(0x7f);
                out.extend(min_header(3, t.len() as u64));
                out.extend_from_slice(t.as_bytes());
                out.push(0xff);
            } else {
                out.extend(min_header(3, t.len() as u64));
                out.extend_from_slice(t.as_bytes());
            }
        }
        Value::Array(xs) => {
            let ind = mode == Indef::Arrays || all;
            if ind {
                out.push(0x9f)
            } else {
                out.extend(min_header(4, xs.len() as u64))
            }
            for x in xs {
                enc_with(x, mode, out);
            }
            if ind {
                out.push(0xff)
            }
        }
        Value::Map(es) => {
            let ind = mode == Indef::Maps || all;
            if ind {
                out.push(0xbf)
            } else {
                out.extend(min_header(5, es.len() as u64))
            }
            for (k, x) in es {
                enc_with(k, mode, out);
                enc_with(x, mode, out);
            }
            if ind {
                out.push(0xff)
            }
        }
        Value::Tag(t, x) => {
            out.extend(min_header(6, *t));
            enc_with(x, mode, out);
        }
        Value::Bool(b) => out.push(if *b { 0xf5 } else { 0xf4 }),
        Value::Null => out.push(0xf6),
        Value::Simple(s) => {
            if *s < 24 {
                out.push(0xe0 | s)
            } else {
                out.extend([0xf8, *s])
            }
        }
        Value::Float(f) => {
            out.push(0xfb);
            out.extend_from_slice(&f.to_bits().to_be_bytes());
        }
    }
}

fn min_header(major: u8, n: u64) -> Vec<u8> {
    let w = if n < 24 {
        0
    } else if n <= 0xff {
        1
    } else if n <= 0xffff {
        2
    } else if n <= 0xffff_ffff {
        4
    } else {
        8
    };
    header(major, n, w)
}

/// every byte-string node of `v`, one at a time, with its content shortened / extended by a byte
fn resize_bytes_nodes(v: &Value) -> Vec<(String, Value)> {
    fn walk(v: &Value, path: &mut Vec<usize>, out: &mut Vec<Vec<usize>>) {
        match v {
            Value::Bytes(_) => out.push(path.clone()),
            Value::Array(xs) => {
                for (i, x) in xs.iter().enumerate() {
                    path.push(i);
                    walk(x, path, out);
                    path.pop();
                }
            }
            Value::Map(es) => {
                for (i, (_, x)) in es.iter().enumerate() {
                    path.push(i);
                    walk(x, path, out);
                    path.pop();
                }
            }
            Value::Tag(_, x) => {
                path.push(0);
                walk(x, path, out);
                path.pop();
            }
            _ => {}
        }
    }
    fn at<'a>(v: &'a mut Value, path: &[usize]) -> &'a mut Value {
        if path.is_empty() {
            return v;
        }
        match v {
            Value::Array(xs) => at(&mut xs[path[0]], &path[1..]),
            Value::Map(es) => at(&mut es[path[0]].1, &path[1..]),
            Value::Tag(_, x) => at(x, &path[1..]),
            _ => v,
        }
    }
    let mut paths = vec![];
    walk(v, &mut vec![], &mut paths);
    let mut out = vec![];
    for p in paths {
        for (what, f) in [("shortened by one byte", 0usize), ("extended by one byte", 1), ("emptied", 2)] {
            let mut c = v.clone();
            if let Value::Bytes(b) = at(&mut c, &p) {
                match f {
                    0 => {
                        if b.0.pop().is_none() {
                            continue;
                        }
                    }
                    1 => b.0.push(0x77),
                    _ => {
                        if b.0.is_empty() {
                            continue;
                        }
                        b.0.clear()
                    }
                }
            }
            out.push((format!("byte string at {p:?} {what}"), c));
        }
    }
    out
}

/// Re-encodings of a value's own encoding that CBOR allows (indefinite lengths) and byte
/// strings of another size: decoded as `T`, they either are rejected or mean what they say.
/// RFC 8949 Appendix C: is `b[at..]` headed by one well-formed data item? Returns its end.
/// `breakable`: a break stop code is acceptable here (inside an indefinite-length container).
fn well_formed_at(b: &[u8], at: usize, breakable: bool, depth: usize) -> Option<(usize, bool)> {
    if depth > 200 {
        return None;
    }
    let ib = *b.get(at)?;
    let (mt, ai) = (ib >> 5, ib & 0x1f);
    let mut p = at + 1;
    let val: u64 = match ai {
        0..=23 => ai as u64,
        24 => {
            let v = *b.get(p)? as u64;
            p += 1;
            v
        }
        25 | 26 | 27 => {
            let n = 1usize << (ai - 24);
            let bytes = b.get(p..p + n)?;
            p += n;
            bytes.iter().fold(0u64, |a, x| (a << 8) | *x as u64)
        }
        28..=30 => return None,
        _ => {
            // indefinite length
            return match mt {
                2 | 3 => {
                    loop {
                        let (e, brk) = well_formed_at(b, p, true, depth + 1)?;
                        if brk {
                            return Some((e, false));
                        }
                        // chunks: definite-length strings of the same major type
                        let cib = b[p];
                        if cib >> 5 != mt || cib & 0x1f == 31 {
                            return None;
                        }
                        p = e;
                    }
                }
                4 => loop {
                    let (e, brk) = well_formed_at(b, p, true, depth + 1)?;
                    p = e;
                    if brk {
                        return Some((p, false));
                    }
                },
                5 => loop {
                    let (e, brk) = well_formed_at(b, p, true, depth + 1)?;
                    p = e;
                    if brk {
                        return Some((p, false));
                    }
                    let (e, brk) = well_formed_at(b, p, false, depth + 1)?;
                    let _ = brk;
                    p = e;
                },
                7 => {
                    if breakable {
                        Some((p, true))
                    } else {
                        None
                    }
                }
                _ => None,
            };
        }
    };
    match mt {
        0 | 1 => Some((p, false)),
        2 | 3 => {
            let n = usize::try_from(val).ok()?;
            if p.checked_add(n)? > b.len() {
                return None;
            }
            Some((p + n, false))
        }
        4 => {
            for _ in 0..val {
                p = well_formed_at(b, p, false, depth + 1)?.0;
            }
            Some((p, false))
        }
        5 => {
            for _ in 0..val.checked_mul(2)? {
                p = well_formed_at(b, p, false, depth + 1)?.0;
            }
            Some((p, false))
        }
        6 => well_formed_at(b, p, false, depth + 1),
        _ => {
            // (RFC 8949 calls the two-byte form of a simple value below 32 not well-formed; the
            // library's decoder reads it as that simple value and re-encodes it in one byte. The
            // property does not demand rejection - see DESIGN.md 9.4 - so the recogniser lets it pass.)
            Some((p, false))
        }
    }
}

/// Exactly one well-formed item and nothing else.
pub fn well_formed_item(b: &[u8]) -> bool { matches!(well_formed_at(b, 0, false, 0), Some((e, false)) if e == b.len()) }

/// Around every indefinite-length form of a value that the typed decoder accepts: each byte
/// removed, each byte replaced by a container header / break (`9f bf 5f 7f ff 80 a0 40`), a break
/// inserted at every offset. Whatever the typed decoder then accepts must be one well-formed CBOR
/// item (checked by the harness through `set_wellformed`) that survives re-encoding.
fn break_and_header_edits<T: CborSerialize + CborDeserialize + Debug + PartialEq>(ctx: &mut Ctx, name: &str, v: &T, eq: &dyn Fn(&T, &T) -> bool) {
    let e = cbor::cbor_encode(v).unwrap();
    let generic: Value = cbor::cbor_decode(&e).unwrap();
    let enc = |v: &T| cbor::cbor_encode(v).expect("encodable");
    let d = |b: &[u8]| dec::<T>(b);
    let show = |v: &T| format!("{v:?}");
    let c = Codec { name, enc: &enc, dec: &d, eq, show: &show, canonical: false, alloc_const: 4 << 20, alloc_factor: 64, short_inputs: false, cost: 2 };
    for mode in [Indef::Arrays, Indef::Maps, Indef::All] {
        let mut x = vec![];
        enc_with(&generic, mode, &mut x);
        if x == e || x.len() > 400 {
            continue;
        }
        for at in 0..x.len() {
            let mut y = x.clone();
            y.remove(at);
            probe(ctx, &c, "indefinite-length form, byte removed", &y);
            for hb in [0x9fu8, 0xbf, 0x5f, 0x7f, 0xff, 0x80, 0xa0, 0x40] {
                if x[at] != hb {
                    let mut y = x.clone();
                    y[at] = hb;
                    probe(ctx, &c, "indefinite-length form, byte replaced by a header / break", &y);
                }
            }
            let mut y = x.clone();
            y.insert(at, 0xff);
            probe(ctx, &c, "indefinite-length form, break inserted", &y);
        }
        // the same edits on the definite form with single headers turned indefinite
        for at in 0..e.len() {
            let (mt, ai) = (e[at] >> 5, e[at] & 0x1f);
            if (mt == 4 || mt == 5) && ai < 24 {
                let mut y = e.clone();
                y[at] = (mt << 5) | 31;
                probe(ctx, &c, "definite header turned indefinite without a break", &y);
                let mut z = y.clone();
                z.push(0xff);
                probe(ctx, &c, "definite header turned indefinite, one break appended", &z);
                // and inside an indefinite-length outer container
                let mut w = x.clone();
                if let Some(pos) = w.windows(1).position(|b| b[0] == e[at]) {
                    w[pos] = (mt << 5) | 31;
                    probe(ctx, &c, "inner header turned indefinite inside an indefinite form", &w);
                }
            }
        }
    }
}

fn encoding_deviations<T: CborSerialize + CborDeserialize + Debug + PartialEq>(ctx: &mut Ctx, name: &str, v: &T) {
    let e = cbor::cbor_encode(v).unwrap();
    let generic: Value = cbor::cbor_decode(&e).unwrap();
    let mut plain = vec![];
    enc_with(&generic, Indef::None, &mut plain);
    if plain != e {
        ctx.violation("encoding-differs-from-reference-encoder", name, e.len(), json!({"type": name, "library": hex::encode(&e), "reference": hex::encode(&plain)}), json!({}));
    }
    for mode in [Indef::BytesOneChunk, Indef::BytesSplit, Indef::Text, Indef::Arrays, Indef::Maps, Indef::All] {
        let mut x = vec![];
        enc_with(&generic, mode, &mut x);
        if x == e {
            continue;
        }
        ctx.evals += 1;
        set_case(name, &x);
        match mc_core::catch(|| cbor::cbor_decode::<T>(&x).ok()) {
            Err(p) => ctx.violation("decoder-panicked", name, x.len(), json!({"type": name, "input": hex::encode(&x)}), json!({"panic": p})),
            Ok(Some(t2)) => {
                ctx.traces += 1;
                if &t2 != v {
                    ctx.violation("indefinite-length-form-decodes-to-another-value", name, x.len(), json!({"type": name, "input": hex::encode(&x), "form": format!("{mode:?}")}), json!({"decoded": format!("{t2:?}").chars().take(300).collect::<String>()}));
                }
                ctx.outcome("indefinite-length form: accepted with the same value", 1);
            }
            Ok(None) => ctx.outcome("indefinite-length form: rejected", 1),
        }
    }
    for (what, altered) in resize_bytes_nodes(&generic) {
        for mode in [Indef::None, Indef::BytesOneChunk, Indef::BytesSplit] {
            let mut x = vec![];
            enc_with(&altered, mode, &mut x);
            ctx.evals += 1;
            set_case(name, &x);
            match mc_core::catch(|| cbor::cbor_decode::<T>(&x).ok()) {
                Err(p) => ctx.violation("decoder-panicked", name, x.len(), json!({"type": name, "input": hex::encode(&x)}), json!({"panic": p})),
                Ok(Some(t2)) => {
                    ctx.traces += 1;
                    // accepted: then the value must carry exactly the altered content
                    let back: Option<Value> = cbor::cbor_encode(&t2).ok().and_then(|b| cbor::cbor_decode(&b).ok());
                    if back.as_ref() != Some(&altered) {
                        ctx.violation("byte-string-of-another-size-accepted-with-other-content", name, x.len(), json!({"type": name, "input": hex::encode(&x), "derived_by": what, "form": format!("{mode:?}")}), json!({"decoded": format!("{t2:?}").chars().take(300).collect::<String>()}));
                    }
                    ctx.outcome("resized byte string: accepted as is (variable-size field)", 1);
                }
                Ok(None) => ctx.outcome("resized byte string: rejected", 1),
            }
        }
    }
}

/// Fixed-size byte arrays: every content length 0..=N+1 in definite form and in every split
/// into <= 3 indefinite-length chunks; accepted iff the total is N, with exactly that content.
fn fixed_arrays(ctx: &mut Ctx) {
    fn check<const N: usize>(ctx: &mut Ctx) {
        let name = format!("[u8; {N}]");
        for total in 0..=N + 1 {
            let content: Vec<u8> = (0..total).map(|i| i as u8 + 1).collect();
            let mut forms: Vec<Vec<u8>> = vec![];
            let mut d = min_header(2, total as u64);
            d.extend_from_slice(&content);
            forms.push(d);
            // all compositions of `total` into at most 3 chunks (chunks may be empty)
            for a in 0..=total {
                for b in 0..=total - a {
                    for nchunks in 0..=3usize {
                        let parts: Vec<usize> = match nchunks {
                            0 => vec![],
                            1 => vec![total],
                            2 => vec![a, total - a],
                            _ => vec![a, b, total - a - b],
                        };
                        if parts.iter().sum::<usize>() != total {
                            continue;
                        }
                        let mut x = vec![0x5f];
                        let mut at = 0;
                        for p in parts {
                            x.extend(min_header(2, p as u64));
                            x.extend_from_slice(&content[at..at + p]);
                            at += p;
                        }
                        x.push(0xff);
                        forms.push(x);
                    }
                }
            }
            forms.sort();
            forms.dedup();
            for x in forms {
                ctx.evals += 1;
                set_case(&name, &x);
                match mc_core::catch(|| cbor::cbor_decode::<[u8; N]>(&x).ok()) {
                    Err(p) => ctx.violation("decoder-panicked", &name, x.len(), json!({"type": name, "input": hex::encode(&x)}), json!({"panic": p})),
                    Ok(Some(arr)) => {
                        ctx.traces += 1;
                        if total != N || arr[..] != content[..] {
                            ctx.violation("wrong-size-byte-string-accepted-as-fixed-array", &name, x.len(), json!({"type": name, "input": hex::encode(&x)}), json!({"decoded": hex::encode(arr), "content_length": total}));
                        }
                        ctx.outcome("fixed array: exact-size string accepted", 1);
                    }
                    Ok(None) => {
                        // indefinite-length strings of the right size may be rejected (not required), definite ones may not
                        if total == N && x[0] != 0x5f {
                            ctx.violation("valid-encoding-rejected", &name, x.len(), json!({"type": name, "input": hex::encode(&x)}), json!({}));
                        }
                        ctx.outcome("fixed array: string rejected", 1);
                    }
                }
            }
        }
        // a chunk header that declares an absurd length after real data
        for x in [vec![0x5f, 0x41, 0x01, 0x5b, 0xff, 0xff, 0xff, 0xff, 0xff, 0xff, 0xff, 0xff, 0xff], vec![0x5f, 0x41, 0x01, 0x5b, 0xff, 0xff, 0xff, 0xff, 0xff, 0xff, 0xff, 0xfe, 0x00, 0xff], vec![0x5f, 0x5b, 0x80, 0, 0, 0, 0, 0, 0, 0, 0xff]] {
            ctx.evals += 1;
            set_case(&name, &x);
            match mc_core::catch(|| cbor::cbor_decode::<[u8; N]>(&x).ok()) {
                Err(p) => ctx.violation("decoder-panicked", &name, x.len(), json!({"type": name, "input": hex::encode(&x)}), json!({"panic": p})),
                Ok(Some(arr)) => ctx.violation("malformed-item-accepted", &name, x.len(), json!({"type": name, "input": hex::encode(&x)}), json!({"decoded": hex::encode(arr)})),
                Ok(None) => ctx.outcome("fixed array: absurd chunk length rejected", 1),
            }
        }
    }
    check::<0>(ctx);
    check::<1>(ctx);
    check::<3>(ctx);
    check::<4>(ctx);
    check::<32>(ctx);
}

fn values(t: &mut Tasks) {
    let quick = t.tier == mc_core::Tier::Quick;
    let lv = leaves();
    let small: Vec<Value> = vec![Value::Positive(0), Value::Positive(24), Value::Negative(0), Value::Bytes(Bytes(vec![1])), Value::Text("a".into()), Value::Bool(true), Value::Null, Value::Float(1.5)];
    // all trees with <= 3 nodes over the full alphabet, 4 (thorough 5) nodes over the small one
    let mut all = vec![];
    let mut memo = HashMap::new();
    for n in 1..=3 {
        all.extend(trees(n, &lv, &mut memo));
    }
    let mut memo2 = HashMap::new();
    for n in 4..=if quick { 4 } else { 5 } {
        all.extend(trees(n, &small, &mut memo2));
    }
    let chunks: Vec<Vec<Value>> = all.chunks(all.len().div_ceil(32)).map(|c| c.to_vec()).collect();
    let total = all.len();
    t.add(move |ctx: &mut Ctx| {
        ctx.extra.insert("value_trees".into(), json!(total));
    });
    for chunk in chunks {
        t.add(move |ctx: &mut Ctx| {
            for v in &chunk {
                ctx.evals += 1;
                let w = || json!({"type": "cbor::Value", "value": format!("{v:?}").chars().take(300).collect::<String>()});
                let e = match mc_core::catch(|| cbor::cbor_encode(v)) {
                    Ok(Ok(e)) => e,
                    Ok(Err(err)) => {
                        ctx.violation("value-not-encodable", "cbor::Value", 8, w(), json!({"error": err.to_string()}));
                        continue;
                    }
                    Err(p) => {
                        ctx.violation("encoder-panicked", "cbor::Value", 8, w(), json!({"panic": p}));
                        continue;
                    }
                };
                if cbor::cbor_encode(v).ok().as_ref() != Some(&e) {
                    ctx.violation("encoding-not-deterministic", "cbor::Value", e.len(), w(), json!({}));
                }
                match mc_core::catch(|| cbor::cbor_decode::<Value>(&e)) {
                    Ok(Ok(back)) => {
                        ctx.traces += 1;
                        if !veq(&back, v) {
                            ctx.violation("round-trip-changes-value", "cbor::Value", e.len(), w(), json!({"encoding": hex::encode(&e), "decoded": format!("{back:?}").chars().take(300).collect::<String>()}));
                        }
                    }
                    Ok(Err(err)) => ctx.violation("valid-encoding-rejected", "cbor::Value", e.len(), w(), json!({"encoding": hex::encode(&e), "error": err.to_string()})),
                    Err(p) => ctx.violation("decoder-panicked", "cbor::Value", e.len(), w(), json!({"panic": p})),
                }
                // trailing data is rejected
                for tb in [0x00u8, 0xf6, 0xff] {
                    let mut x = e.clone();
                    x.push(tb);
                    if cbor::cbor_decode::<Value>(&x).is_ok() {
                        ctx.violation("trailing-data-accepted", "cbor::Value", x.len(), json!({"type": "cbor::Value", "input": hex::encode(&x)}), json!({}));
                    }
                }
                ctx.outcome("value tree: round trip ok", 1);
            }
        });
    }
    // byte neighbourhood of a spread of encodings
    let nb: Vec<Value> = all.iter().step_by(all.len() / if quick { 60 } else { 600 }).cloned().collect();
    for chunk in nb.chunks(10).map(|c| c.to_vec()) {
        t.add(move |ctx: &mut Ctx| sweep_cbor::<Value>(ctx, "cbor::Value", chunk, &veq, 1));
    }
    // nesting chains up to depth 64 (deeper is outside the claim, observation O3)
    t.add(|ctx: &mut Ctx| {
        for kind in 0..4 {
            for depth in [1usize, 2, 16, 63, 64] {
                ctx.evals += 1;
                let mut v = Value::Positive(7);
                for i in 0..depth {
                    v = match kind {
                        0 => Value::Array(vec![v]),
                        1 => Value::Map(vec![(Value::Text("k".into()), v)]),
                        2 => Value::Tag(4, Box::new(v)),
                        _ => match i % 3 {
                            0 => Value::Array(vec![v, Value::Null]),
                            1 => Value::Map(vec![(v, Value::Bool(false))]),
                            _ => Value::Tag(24, Box::new(v)),
                        },
                    };
                }
                let kind_name = ["array", "map", "tag", "mixed"][kind];
                let w = json!({"type": "cbor::Value", "nesting": kind_name, "depth": depth});
                match mc_core::catch(|| cbor::cbor_encode(&v).ok().and_then(|e| cbor::cbor_decode::<Value>(&e).ok())) {
                    Ok(Some(back)) if veq(&back, &v) => ctx.outcome("nesting chain: round trip ok", 1),
                    Ok(_) => ctx.violation("round-trip-changes-value", "cbor::Value nesting", depth, w, json!({})),
                    Err(p) => ctx.violation("decoder-panicked", "cbor::Value nesting", depth, w, json!({"panic": p})),
                }
                ctx.traces += 1;
            }
        }
    });
    // CBOR-specific deviations of well-formed items: what decodes must be what the data model says
    t.add(|ctx: &mut Ctx| {
        let mut check = |ctx: &mut Ctx, what: &str, bytes: Vec<u8>, model: Option<Value>| {
            ctx.evals += 1;
            set_case("cbor::Value", &bytes);
            let got = mc_core::catch(|| cbor::cbor_decode::<Value>(&bytes).ok());
            let w = json!({"type": "cbor::Value", "input": hex::encode(&bytes), "derived_by": what});
            match got {
                Err(p) => ctx.violation("decoder-panicked", "cbor::Value", bytes.len(), w, json!({"panic": p})),
                Ok(None) => ctx.outcome(&format!("{what}: rejected"), 1),
                Ok(Some(v)) => {
                    ctx.traces += 1;
                    match model {
                        Some(m) if veq(&m, &v) => ctx.outcome(&format!("{what}: accepted with the data-model value"), 1),
                        Some(m) => ctx.violation("decoded-value-differs-from-data-model", "cbor::Value", bytes.len(), w, json!({"decoded": format!("{v:?}"), "data_model": format!("{m:?}")})),
                        None => ctx.violation("malformed-item-accepted", "cbor::Value", bytes.len(), w, json!({"decoded": format!("{v:?}")})),
                    }
                }
            }
        };
        // non-minimal integer widths
        for n in [0u64, 1, 23, 24, 255, 256, 65535, 65536] {
            for width in [1u8, 2, 4, 8] {
                let fits = match width {
                    1 => n <= 0xff,
                    2 => n <= 0xffff,
                    4 => n <= 0xffff_ffff,
                    _ => true,
                };
                if fits {
                    check(ctx, "integer in a wider encoding", header(0, n, width), Some(Value::Positive(n)));
                    check(ctx, "integer in a wider encoding", header(1, n, width), Some(Value::Negative(n)));
                    let mut b = header(2, n.min(3), width);
                    b.extend(std::iter::repeat(0x55).take(n.min(3) as usize));
                    check(ctx, "length in a wider encoding", b, Some(Value::Bytes(Bytes(vec![0x55; n.min(3) as usize]))));
                    let mut a = header(4, 1, width);
                    a.push(0x01);
                    check(ctx, "length in a wider encoding", a, Some(Value::Array(vec![Value::Positive(1)])));
                    let mut tg = header(6, n, width);
                    tg.push(0xf6);
                    check(ctx, "tag in a wider encoding", tg, Some(Value::Tag(n, Box::new(Value::Null))));
                }
            }
        }
        // indefinite lengths
        check(ctx, "indefinite-length array", vec![0x9f, 0x01, 0x02, 0xff], Some(Value::Array(vec![Value::Positive(1), Value::Positive(2)])));
        check(ctx, "indefinite-length array", vec![0x9f, 0xff], Some(Value::Array(vec![])));
        check(ctx, "indefinite-length map", vec![0xbf, 0x01, 0x02, 0xff], Some(Value::Map(vec![(Value::Positive(1), Value::Positive(2))])));
        check(ctx, "indefinite-length byte string", vec![0x5f, 0x41, 0x01, 0x41, 0x02, 0xff], Some(Value::Bytes(Bytes(vec![1, 2]))));
        check(ctx, "indefinite-length text string", vec![0x7f, 0x61, b'a', 0x61, b'b', 0xff], Some(Value::Text("ab".into())));
        // malformed
        check(ctx, "break without an open container", vec![0xff], None);
        check(ctx, "indefinite array without break", vec![0x9f, 0x01], None);
        check(ctx, "map with a key and no value", vec![0xa1, 0x01], None);
        check(ctx, "indefinite map with odd item count", vec![0xbf, 0x01, 0xff], None);
        check(ctx, "reserved additional information 28", vec![0x1c], None);
        check(ctx, "reserved additional information 30", vec![0x1e], None);
        check(ctx, "text that is not UTF-8", vec![0x62, 0xc3, 0x28], None);
        check(ctx, "byte string chunk of the wrong major type", vec![0x5f, 0x61, b'a', 0xff], None);
        check(ctx, "array length beyond the input", vec![0x9b, 0xff, 0xff, 0xff, 0xff, 0xff, 0xff, 0xff, 0xff], None);
        check(ctx, "byte string length beyond the input", vec![0x5b, 0xff, 0xff, 0xff, 0xff, 0xff, 0xff, 0xff, 0xff, 0x00], None);
        check(ctx, "map length beyond the input", vec![0xbb, 0x00, 0x00, 0x00, 0x01, 0x00, 0x00, 0x00, 0x00], None);
        // not well-formed per RFC 8949 3.3, but it has an obvious data-model reading
        check(ctx, "two-byte simple value below 32", vec![0xf8, 0x10], Some(Value::Simple(16)));
        // duplicate map keys are representable in the generic model (a list of pairs)
        check(ctx, "duplicate map keys", vec![0xa2, 0x01, 0x02, 0x01, 0x03], Some(Value::Map(vec![(Value::Positive(1), Value::Positive(2)), (Value::Positive(1), Value::Positive(3))])));
        // half / single precision floats denote the same number
        check(ctx, "half-precision float", vec![0xf9, 0x3e, 0x00], Some(Value::Float(1.5)));
        check(ctx, "single-precision float", vec![0xfa, 0x3f, 0xc0, 0x00, 0x00], Some(Value::Float(1.5)));
    });
}

// ---------------------------------------------------------------------------------------
// token types
// ---------------------------------------------------------------------------------------

fn holder(with_coin: bool, b: u8) -> CborHolderAccount { CborHolderAccount { coin_info: if with_coin { Some(CoinInfo::CCD) } else { None }, address: AccountAddress([b; 32]) } }

fn amounts() -> Vec<TokenAmount> {
    let mut out = vec![];
    for v in [0u64, 1, 9, 10, 999_999, 1_000_000, 10u64.pow(18) - 1, 10u64.pow(18), 10u64.pow(19), u64::MAX] {
        for d in [0u8, 1, 6, 18, 19, 20, 28, 29, 255] {
            out.push(TokenAmount::from_raw(v, d));
        }
    }
    out
}

fn operations() -> Vec<TokenOperation> {
    let a = TokenAmount::from_raw(1_500_000, 6);
    vec![
        TokenOperation::Transfer(TokenTransfer { amount: a, recipient: holder(true, 1), memo: None }),
        TokenOperation::Transfer(TokenTransfer { amount: TokenAmount::from_raw(u64::MAX, 255), recipient: holder(false, 2), memo: Some(CborMemo::Raw(Memo::try_from(vec![1, 2]).unwrap())) }),
        TokenOperation::Transfer(TokenTransfer { amount: a, recipient: holder(true, 3), memo: Some(CborMemo::Cbor(Memo::try_from(vec![0x61, b'x']).unwrap())) }),
        TokenOperation::Mint(TokenSupplyUpdateDetails { amount: a }),
        TokenOperation::Burn(TokenSupplyUpdateDetails { amount: TokenAmount::from_raw(0, 0) }),
        TokenOperation::AddAllowList(TokenListUpdateDetails { target: holder(true, 4) }),
        TokenOperation::RemoveAllowList(TokenListUpdateDetails { target: holder(false, 5) }),
        TokenOperation::AddDenyList(TokenListUpdateDetails { target: holder(true, 6) }),
        TokenOperation::RemoveDenyList(TokenListUpdateDetails { target: holder(true, 7) }),
        TokenOperation::Pause(TokenPauseDetails {}),
        TokenOperation::Unpause(TokenPauseDetails {}),
    ]
}

fn additional(n: usize) -> HashMap<String, Value> {
    let mut m = HashMap::new();
    if n >= 1 {
        m.insert("customField".to_string(), Value::Positive(7));
    }
    if n >= 2 {
        m.insert("other".to_string(), Value::Array(vec![Value::Text("x".into()), Value::Null]));
    }
    for i in 2..n {
        m.insert(format!("field{i}"), Value::Positive(i as u64));
    }
    m
}

fn metadata(k: usize) -> MetadataUrl {
    match k {
        0 => MetadataUrl { url: String::new(), checksum_sha_256: None, additional: HashMap::new() },
        1 => MetadataUrl { url: "https://example.com/t.json".into(), checksum_sha_256: Some(Hash::from([9u8; 32])), additional: HashMap::new() },
        _ => MetadataUrl { url: "u".into(), checksum_sha_256: None, additional: additional(1) },
    }
}

/// Field-level deviations of the map form of `v`: each entry removed, an undeclared entry
/// added (under both decoding options), each value replaced by one of another major type.
fn field_deviations<T: CborSerialize + CborDeserialize + Debug + PartialEq>(ctx: &mut Ctx, name: &str, v: &T, has_other: bool, is_enum: bool) {
    let e = cbor::cbor_encode(v).unwrap();
    let generic: Value = cbor::cbor_decode(&e).unwrap();
    // peel tags
    let mut tags = vec![];
    let mut cur = generic;
    while let Value::Tag(t, inner) = cur {
        tags.push(t);
        cur = *inner;
    }
    let Value::Map(entries) = cur else { return };
    let rebuild = |entries: Vec<(Value, Value)>| {
        let mut v = Value::Map(entries);
        for t in tags.iter().rev() {
            v = Value::Tag(*t, Box::new(v));
        }
        cbor::cbor_encode(&v).unwrap()
    };
    let fail = SerializationOptions::default().unknown_map_keys(UnknownMapKeys::Fail);
    let ignore = SerializationOptions::default().unknown_map_keys(UnknownMapKeys::Ignore);
    for i in 0..entries.len() {
        // entry removed: either an optional field (decodes to a value that re-encodes
        // without it) or a mandatory one (rejected)
        let mut x = entries.clone();
        let removed = x.remove(i);
        let b = rebuild(x);
        ctx.evals += 1;
        set_case(name, &b);
        match mc_core::catch(|| cbor::cbor_decode::<T>(&b).ok()) {
            Err(p) => ctx.violation("decoder-panicked", name, b.len(), json!({"type": name, "input": hex::encode(&b)}), json!({"panic": p})),
            Ok(Some(t2)) => {
                ctx.traces += 1;
                if cbor::cbor_encode(&t2).ok().as_deref() != Some(&b[..]) {
                    ctx.violation("field-removal-not-reflected", name, b.len(), json!({"type": name, "input": hex::encode(&b), "removed_key": format!("{:?}", removed.0)}), json!({"decoded": format!("{t2:?}").chars().take(300).collect::<String>()}));
                }
                ctx.outcome("field removed: optional (accepted, re-encodes identically)", 1);
            }
            Ok(None) => ctx.outcome("field removed: mandatory (rejected)", 1),
        }
        // value of another major type
        for repl in [Value::Array(vec![Value::Null, Value::Null, Value::Null]), Value::Simple(99)] {
            let mut x = entries.clone();
            x[i].1 = repl.clone();
            let b = rebuild(x);
            ctx.evals += 1;
            set_case(name, &b);
            match mc_core::catch(|| cbor::cbor_decode::<T>(&b).ok()) {
                Err(p) => ctx.violation("decoder-panicked", name, b.len(), json!({"type": name, "input": hex::encode(&b)}), json!({"panic": p})),
                Ok(Some(t2)) => {
                    // only fields of the generic `Value` type (the `other` bag) can hold it
                    if !(has_other && cbor::cbor_encode(&t2).ok().as_deref() == Some(&b[..])) {
                        ctx.violation("ill-typed-field-accepted", name, b.len(), json!({"type": name, "input": hex::encode(&b), "key": format!("{:?}", entries[i].0)}), json!({"decoded": format!("{t2:?}").chars().take(300).collect::<String>()}));
                    }
                }
                Ok(None) => ctx.outcome("ill-typed field: rejected", 1),
            }
        }
    }
    // an undeclared field
    for key in [Value::Text("undeclaredField".into()), Value::Positive(77)] {
        let mut x = entries.clone();
        x.push((key.clone(), Value::Positive(1)));
        let b = rebuild(x);
        ctx.evals += 2;
        set_case(name, &b);
        let with_fail = mc_core::catch(|| cbor::cbor_decode_with_options::<T>(&b, fail).ok());
        let with_ignore = mc_core::catch(|| cbor::cbor_decode_with_options::<T>(&b, ignore).ok());
        let w = json!({"type": name, "input": hex::encode(&b), "undeclared_key": format!("{key:?}")});
        match (with_fail, with_ignore) {
            (Err(p), _) | (_, Err(p)) => ctx.violation("decoder-panicked", name, b.len(), w, json!({"panic": p})),
            (Ok(f), Ok(ig)) if is_enum => {
                // a map-represented enum is a map with exactly one entry
                if f.is_some() || ig.is_some() {
                    ctx.violation("enum-map-with-two-entries-accepted", name, b.len(), w.clone(), json!({}));
                }
                ctx.outcome("second entry in an enum map: rejected", 1);
            }
            (Ok(f), Ok(ig)) => {
                let textual = matches!(key, Value::Text(_));
                if has_other && textual {
                    // preserved, under either option
                    for (opt, r) in [("fail", &f), ("ignore", &ig)] {
                        match r {
                            Some(t2) if cbor::cbor_decode::<Value>(cbor::cbor_encode(t2).unwrap()).ok().map(|g| contains_key(&g, &key)) == Some(true) => {}
                            _ => ctx.violation("unknown-field-not-preserved", name, b.len(), w.clone(), json!({"option": opt})),
                        }
                    }
                    ctx.outcome("undeclared field: preserved by the type", 1);
                } else {
                    if f.is_some() && !has_other {
                        ctx.violation("undeclared-field-accepted-under-fail-option", name, b.len(), w.clone(), json!({}));
                    }
                    match ig {
                        Some(t2) if !has_other && &t2 != v => ctx.violation("undeclared-field-changes-value", name, b.len(), w.clone(), json!({})),
                        None if !has_other => ctx.violation("undeclared-field-rejected-under-ignore-option", name, b.len(), w.clone(), json!({})),
                        _ => {}
                    }
                    ctx.outcome("undeclared field: ignored / rejected as the option says", 1);
                }
            }
        }
    }
    // a declared key twice
    if let Some(first) = entries.first() {
        let mut x = entries.clone();
        x.push(first.clone());
        let b = rebuild(x);
        ctx.evals += 1;
        // RFC 8949 leaves the treatment of duplicate keys to the application and the property
        // does not demand rejection: recorded only (an accepted value must equal the original
        // or the one with the later entry, which is the same entry here)
        match mc_core::catch(|| cbor::cbor_decode::<T>(&b).ok()) {
            Err(p) => ctx.violation("decoder-panicked", name, b.len(), json!({"type": name, "input": hex::encode(&b)}), json!({"panic": p})),
            Ok(Some(t2)) => {
                if &t2 != v {
                    ctx.violation("duplicate-field-changes-value", name, b.len(), json!({"type": name, "input": hex::encode(&b)}), json!({}));
                }
                ctx.outcome("duplicate field: accepted (same value)", 1)
            }
            Ok(None) => ctx.outcome("duplicate field: rejected", 1),
        }
    }
}

fn contains_key(v: &Value, key: &Value) -> bool {
    match v {
        Value::Tag(_, inner) => contains_key(inner, key),
        Value::Map(es) => es.iter().any(|(k, _)| k == key),
        _ => false,
    }
}

macro_rules! tok {
    ($t:expr, $ty:ty, $vals:expr, $other:expr) => {
        tok!($t, $ty, $vals, $other, false)
    };
    ($t:expr, $ty:ty, $vals:expr, $other:expr, $is_enum:expr) => {{
        let vals: Vec<$ty> = $vals;
        $t.add(move |ctx: &mut Ctx| {
            for v in &vals {
                field_deviations::<$ty>(ctx, stringify!($ty), v, $other, $is_enum);
                encoding_deviations::<$ty>(ctx, stringify!($ty), v);
                break_and_header_edits::<$ty>(ctx, stringify!($ty), v, &|a: &$ty, b: &$ty| a == b);
            }
            let eq = |a: &$ty, b: &$ty| a == b;
            sweep_cbor::<$ty>(ctx, stringify!($ty), vals, &eq, 2);
        })
    }};
}

/// Equal values encode equally: a value that went through decoding must re-encode to the bytes
/// it was decoded from (several unknown fields are kept in a map - its order must not show).
fn reencode_stable<T: cbor::CborSerialize + cbor::CborDeserialize + PartialEq + Debug>(ctx: &mut Ctx, name: &str, v: &T) {
    let e0 = cbor::cbor_encode(v).unwrap();
    for _ in 0..24 {
        ctx.evals += 1;
        let Ok(back) = cbor::cbor_decode::<T>(&e0) else {
            ctx.violation("round-trip-changes-value", name, e0.len(), json!({"type": name, "encoding": hex::encode(&e0)}), json!({"error": "does not decode"}));
            return;
        };
        let e1 = cbor::cbor_encode(&back).unwrap();
        if back != *v || e1 != e0 {
            ctx.violation("encoding-not-deterministic", name, e0.len(), json!({"type": name, "encoding": hex::encode(&e0)}), json!({"equal_value": back == *v, "re_encoding": hex::encode(&e1)}));
            return;
        }
    }
    ctx.outcome("re-encoding of a decoded value is stable", 1);
}

fn tokens(t: &mut Tasks) {
    let quick = t.tier == mc_core::Tier::Quick;
    t.add(fixed_arrays);
    t.add(|ctx: &mut Ctx| {
        for n in [0usize, 1, 2, 3, 6] {
            reencode_stable(ctx, "MetadataUrl", &MetadataUrl { url: "u".into(), checksum_sha_256: None, additional: additional(n) });
            reencode_stable(ctx, "TokenModuleAccountState", &TokenModuleAccountState { allow_list: Some(true), deny_list: None, additional: additional(n) });
            reencode_stable(ctx, "TokenModuleState", &TokenModuleState { name: Some("T".into()), metadata: None, governance_account: None, allow_list: None, deny_list: None, mintable: None, burnable: None, paused: None, additional: additional(n) });
            reencode_stable(ctx, "TokenModuleInitializationParameters", &TokenModuleInitializationParameters { name: None, metadata: None, governance_account: None, allow_list: None, deny_list: None, initial_supply: None, mintable: None, burnable: None, additional: additional(n) });
        }
    });
    // ---- amounts: value x 10^-decimals across CBOR, decimal string, JSON, rust_decimal ----
    t.add(|ctx: &mut Ctx| {
        for a in amounts() {
            ctx.evals += 1;
            let w = json!({"type": "TokenAmount", "value": a.value().to_string(), "decimals": a.decimals()});
            // CBOR: decimal fraction tag 4 [ -decimals, value ]
            let e = cbor::cbor_encode(&a).unwrap();
            let want = Value::Tag(4, Box::new(Value::Array(vec![if a.decimals() == 0 { Value::Positive(0) } else { Value::Negative(a.decimals() as u64 - 1) }, Value::Positive(a.value())])));
            if cbor::cbor_decode::<Value>(&e).ok().as_ref() != Some(&want) {
                ctx.violation("token-amount-cbor-form-differs", "TokenAmount", e.len(), w.clone(), json!({"encoding": hex::encode(&e)}));
            }
            if cbor::cbor_decode::<TokenAmount>(&e).ok() != Some(a) {
                ctx.violation("round-trip-changes-value", "TokenAmount", e.len(), w.clone(), json!({"encoding": hex::encode(&e)}));
            }
            // decimal string = digits of value with the point `decimals` places from the right
            let digits = a.value().to_string();
            let d = a.decimals() as usize;
            let want_str = if d == 0 {
                digits.clone()
            } else {
                let padded = format!("{}{}", "0".repeat((d + 1).saturating_sub(digits.len())), digits);
                format!("{}.{}", &padded[..padded.len() - d], &padded[padded.len() - d..])
            };
            if a.to_string() != want_str {
                ctx.violation("token-amount-decimal-string-differs", "TokenAmount", 8, w.clone(), json!({"printed": a.to_string(), "expected": want_str}));
            }
            // JSON
            let js = serde_json::to_value(a).unwrap();
            if js != json!({"value": a.value().to_string(), "decimals": a.decimals()}) || serde_json::from_value::<TokenAmount>(js.clone()).ok() != Some(a) {
                ctx.violation("token-amount-json-form-differs", "TokenAmount", 8, w.clone(), json!({"json": js}));
            }
            // rust_decimal (scale <= 28) and the string parser agree with the raw pair
            if a.decimals() <= 28 {
                match a.try_to_rust_decimal() {
                    Ok(dec) => {
                        if dec.mantissa() != a.value() as i128 || dec.scale() != a.decimals() as u32 {
                            ctx.violation("token-amount-decimal-differs", "TokenAmount", 8, w.clone(), json!({"decimal": dec.to_string()}));
                        }
                        if TokenAmount::try_from_rust_decimal(dec, a.decimals(), ConversionRule::Exact).ok() != Some(a) {
                            ctx.violation("token-amount-decimal-round-trip", "TokenAmount", 8, w.clone(), json!({}));
                        }
                        match TokenAmount::from_str(&want_str, a.decimals(), ConversionRule::Exact) {
                            Ok(b) if b == a => {}
                            other => ctx.violation("token-amount-string-round-trip", "TokenAmount", 8, w.clone(), json!({"parsed": format!("{other:?}")})),
                        }
                    }
                    Err(e) => ctx.violation("token-amount-decimal-differs", "TokenAmount", 8, w.clone(), json!({"error": e.to_string()})),
                }
            }
            ctx.traces += 1;
        }
        // CBOR forms that do not denote a token amount
        for (what, v) in [
            ("positive exponent", Value::Tag(4, Box::new(Value::Array(vec![Value::Positive(1), Value::Positive(5)])))),
            ("exponent below -255", Value::Tag(4, Box::new(Value::Array(vec![Value::Negative(255), Value::Positive(5)])))),
            ("negative mantissa", Value::Tag(4, Box::new(Value::Array(vec![Value::Negative(1), Value::Negative(5)])))),
            ("three elements", Value::Tag(4, Box::new(Value::Array(vec![Value::Negative(1), Value::Positive(5), Value::Positive(0)])))),
            ("untagged", Value::Array(vec![Value::Negative(1), Value::Positive(5)])),
            ("other tag", Value::Tag(5, Box::new(Value::Array(vec![Value::Negative(1), Value::Positive(5)])))),
        ] {
            ctx.evals += 1;
            let b = cbor::cbor_encode(&v).unwrap();
            if let Ok(a) = cbor::cbor_decode::<TokenAmount>(&b) {
                ctx.violation("malformed-token-amount-accepted", "TokenAmount", b.len(), json!({"type": "TokenAmount", "input": hex::encode(&b), "derived_by": what}), json!({"decoded": format!("{a:?}")}));
            }
        }
    });
    tok!(t, TokenAmount, vec![TokenAmount::from_raw(0, 0), TokenAmount::from_raw(1_500_000, 6), TokenAmount::from_raw(u64::MAX, 255)], false);
    tok!(t, cbor::DecimalFraction, vec![cbor::DecimalFraction::new(0, 0), cbor::DecimalFraction::new(-6, 1_500_000), cbor::DecimalFraction::new(i64::MIN, i64::MAX), cbor::DecimalFraction::new(5, -1), cbor::DecimalFraction::new(i64::MAX, i64::MIN)], false);
    tok!(t, cbor::UnsignedDecimalFraction, vec![cbor::UnsignedDecimalFraction::new(0, 0), cbor::UnsignedDecimalFraction::new(-255, u64::MAX), cbor::UnsignedDecimalFraction::new(i64::MIN, 1), cbor::UnsignedDecimalFraction::new(i64::MAX, 7)], false);
    tok!(t, cbor::MapKey, vec![cbor::MapKey::Positive(0), cbor::MapKey::Positive(u64::MAX), cbor::MapKey::Text(String::new()), cbor::MapKey::Text("key".into())], false);
    {
        use concordium_base::web3id::v1::anchor::{VerificationAuditAnchor, VerificationRequestAnchor};
        let public = |n: usize| if n == 0 { None } else { Some(additional(n - 1)) };
        tok!(t, VerificationRequestAnchor, (0..4).map(|n| VerificationRequestAnchor { r#type: "CCDVRA".into(), version: 1, hash: Hash::from([n as u8; 32]), public: public(n) }).collect(), false);
        tok!(t, VerificationAuditAnchor, (0..4).map(|n| VerificationAuditAnchor { r#type: "CCDVAA".into(), version: u16::MAX, hash: Hash::from([0xF0 + n as u8; 32]), public: public(n) }).collect(), false);
    }
    tok!(t, CborHolderAccount, vec![holder(true, 1), holder(false, 255)], false);
    tok!(t, CborMemo, vec![CborMemo::Raw(Memo::try_from(vec![]).unwrap()), CborMemo::Raw(Memo::try_from(vec![7; 256]).unwrap()), CborMemo::Cbor(Memo::try_from(vec![0xf6]).unwrap())], false);
    tok!(t, TokenOperation, operations(), false, true);
    tok!(t, MetadataUrl, vec![metadata(0), metadata(1), metadata(2)], true);
    tok!(t, TokenModuleState, vec![
        TokenModuleState { name: None, metadata: None, governance_account: None, allow_list: None, deny_list: None, mintable: None, burnable: None, paused: None, additional: HashMap::new() },
        TokenModuleState { name: Some("TK1".into()), metadata: Some(metadata(1)), governance_account: Some(holder(true, 9)), allow_list: Some(true), deny_list: Some(false), mintable: Some(true), burnable: Some(false), paused: Some(true), additional: additional(1) },
    ], true);
    tok!(t, TokenModuleAccountState, vec![TokenModuleAccountState::default(), TokenModuleAccountState { allow_list: Some(true), deny_list: Some(false), additional: additional(1) }], true);
    tok!(t, TokenModuleInitializationParameters, vec![
        TokenModuleInitializationParameters { name: None, metadata: None, governance_account: None, allow_list: None, deny_list: None, initial_supply: None, mintable: None, burnable: None, additional: HashMap::new() },
        TokenModuleInitializationParameters { name: Some("".into()), metadata: Some(metadata(0)), governance_account: Some(holder(false, 3)), allow_list: Some(false), deny_list: Some(true), initial_supply: Some(TokenAmount::from_raw(10, 2)), mintable: Some(false), burnable: Some(true), additional: additional(1) },
    ], true);
    tok!(t, AddressNotFoundRejectReason, vec![AddressNotFoundRejectReason { index: 0, address: holder(true, 1) }, AddressNotFoundRejectReason { index: usize::MAX, address: holder(false, 2) }], false);
    tok!(t, TokenBalanceInsufficientRejectReason, vec![TokenBalanceInsufficientRejectReason { index: 3, available_balance: TokenAmount::from_raw(1, 6), required_balance: TokenAmount::from_raw(2, 6) }], false);
    tok!(t, DeserializationFailureRejectReason, vec![DeserializationFailureRejectReason { cause: None }, DeserializationFailureRejectReason { cause: Some("why".into()) }], false);
    tok!(t, UnsupportedOperationRejectReason, vec![UnsupportedOperationRejectReason { index: 1, operation_type: "x".into(), reason: None }, UnsupportedOperationRejectReason { index: 2, operation_type: "".into(), reason: Some("r".into()) }], false);
    tok!(t, OperationNotPermittedRejectReason, vec![OperationNotPermittedRejectReason { index: 1, address: None, reason: None }, OperationNotPermittedRejectReason { index: 1, address: Some(holder(true, 4)), reason: Some("r".into()) }], false);
    tok!(t, MintWouldOverflowRejectReason, vec![MintWouldOverflowRejectReason { index: 1, requested_amount: TokenAmount::from_raw(1, 0), current_supply: TokenAmount::from_raw(u64::MAX, 0), max_representable_amount: TokenAmount::from_raw(u64::MAX, 0) }], false);
    tok!(t, TokenListUpdateEventDetails, vec![TokenListUpdateEventDetails { target: holder(true, 6) }], false);
    tok!(t, TokenPauseEventDetails, vec![TokenPauseEventDetails {}], false);
    // ---- all operation sequences of length <= 3 (quick: <= 2, plus a diagonal of length 3) ----
    let ops = operations();
    let unknown: CborUpward<TokenOperation> = Upward::Unknown(Value::Map(vec![(Value::Text("futureOperation".into()), Value::Map(vec![(Value::Text("x".into()), Value::Positive(1))]))]));
    let mut alphabet: Vec<CborUpward<TokenOperation>> = ops.into_iter().map(Upward::Known).collect();
    alphabet.push(unknown);
    let n = alphabet.len();
    let mut seqs: Vec<Vec<usize>> = vec![vec![]];
    for a in 0..n {
        seqs.push(vec![a]);
        for b in 0..n {
            seqs.push(vec![a, b]);
            for c in 0..n {
                if !quick || (a + b + c) % 5 == 0 {
                    seqs.push(vec![a, b, c]);
                }
            }
        }
    }
    let total = seqs.len();
    for chunk in seqs.chunks(seqs.len().div_ceil(16)).map(|c| c.to_vec()) {
        let alphabet = alphabet.clone();
        t.add(move |ctx: &mut Ctx| {
            for s in &chunk {
                ctx.evals += 1;
                let v = TokenOperations::new(s.iter().map(|i| alphabet[*i].clone()).collect());
                let w = json!({"type": "TokenOperations", "sequence": s});
                let e = cbor::cbor_encode(&v).unwrap();
                if cbor::cbor_encode(&v).unwrap() != e {
                    ctx.violation("encoding-not-deterministic", "TokenOperations", e.len(), w.clone(), json!({}));
                }
                match mc_core::catch(|| cbor::cbor_decode::<TokenOperations>(&e).ok()) {
                    Ok(Some(back)) if back == v => {
                        // the payload wrapper carries exactly these bytes
                        let p = TokenOperationsPayload { token_id: TokenId::try_from("TOK".to_string()).unwrap(), operations: RawCbor::from(e.clone()) };
                        if p.decode_operations().ok().as_ref() != Some(&v) {
                            ctx.violation("payload-operations-differ", "TokenOperations", e.len(), w, json!({}));
                        }
                        // unknown operations survive a decode / encode cycle byte for byte
                        if cbor::cbor_encode(&back).unwrap() != e {
                            ctx.violation("re-encoding-differs", "TokenOperations", e.len(), w_clone(s), json!({}));
                        }
                        ctx.outcome("operation sequence: round trip ok", 1);
                    }
                    Ok(other) => ctx.violation("round-trip-changes-value", "TokenOperations", e.len(), w, json!({"decoded": format!("{other:?}").chars().take(300).collect::<String>()})),
                    Err(p) => ctx.violation("decoder-panicked", "TokenOperations", e.len(), w, json!({"panic": p})),
                }
                ctx.traces += 1;
            }
        });
    }
    t.add(move |ctx: &mut Ctx| {
        ctx.extra.insert("operation_sequences".into(), json!(total));
    });
    let alphabet2 = alphabet.clone();
    t.add(move |ctx: &mut Ctx| {
        let eq = |a: &TokenOperations, b: &TokenOperations| a == b;
        sweep_cbor::<TokenOperations>(ctx, "TokenOperations", vec![TokenOperations::new(vec![]), TokenOperations::new(vec![alphabet2[1].clone(), alphabet2[n - 1].clone()]), TokenOperations::new(vec![alphabet2[9].clone(), alphabet2[3].clone(), alphabet2[5].clone()])], &eq, 3);
    });
}

fn w_clone(s: &[usize]) -> serde_json::Value { json!({"type": "TokenOperations", "sequence": s}) }
