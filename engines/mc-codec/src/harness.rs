//! Shared machinery of the codec engines: a counting allocator with a hard ceiling, a crash
//! reporter that names the input being decoded, worker processes (one per type group) and
//! the byte-neighbourhood sweep.
//!
//! Process model: the engine binary re-executes itself once per type group
//! (`--worker <group>`), single-threaded. A worker prints one JSON line with its counters
//! and violations. If a decoder aborts the process (allocation failure, stack overflow) the
//! signal handler / allocator prints `CRASH <reason> type=<name> input=<hex>` on stderr
//! before exiting, and the parent turns that into a violation with that input as witness.

use mc_core::Tier;
use serde_json::{json, Value as J};
use std::{
    alloc::{GlobalAlloc, Layout, System},
    cell::Cell,
    collections::BTreeMap,
};

// ---------------------------------------------------------------------------------------
// counting allocator
// ---------------------------------------------------------------------------------------

pub struct CountingAlloc;

/// A single request above this is never legitimate for the inputs of these engines
/// (they are at most a few kB long): report it instead of trying to satisfy it.
const CEILING: usize = 1 << 30;

thread_local! {
    static CUR: Cell<usize> = const { Cell::new(0) };
    static PEAK: Cell<usize> = const { Cell::new(0) };
}

unsafe impl GlobalAlloc for CountingAlloc {
    unsafe fn alloc(&self, l: Layout) -> *mut u8 {
        if l.size() > CEILING {
            crash("allocation-request-above-1GiB");
        }
        let p = System.alloc(l);
        if !p.is_null() {
            let _ = CUR.try_with(|c| {
                let n = c.get() + l.size();
                c.set(n);
                let _ = PEAK.try_with(|p| {
                    if n > p.get() {
                        p.set(n)
                    }
                });
            });
        }
        p
    }

    unsafe fn dealloc(&self, p: *mut u8, l: Layout) {
        System.dealloc(p, l);
        let _ = CUR.try_with(|c| c.set(c.get().saturating_sub(l.size())));
    }

    unsafe fn realloc(&self, p: *mut u8, l: Layout, new: usize) -> *mut u8 {
        if new > CEILING {
            crash("allocation-request-above-1GiB");
        }
        let q = System.realloc(p, l, new);
        if !q.is_null() {
            let _ = CUR.try_with(|c| {
                let n = c.get().saturating_sub(l.size()) + new;
                c.set(n);
                let _ = PEAK.try_with(|p| {
                    if n > p.get() {
                        p.set(n)
                    }
                });
            });
        }
        q
    }
}

/// Bytes allocated at the peak of `f`, above what was allocated when it started.
pub fn measure<R>(f: impl FnOnce() -> R) -> (R, usize) {
    let base = CUR.with(|c| c.get());
    PEAK.with(|p| p.set(base));
    let r = f();
    let peak = PEAK.with(|p| p.get());
    (r, peak.saturating_sub(base))
}

// ---------------------------------------------------------------------------------------
// crash reporter
// ---------------------------------------------------------------------------------------

thread_local! {
    /// (name ptr, name len, input ptr, input len) of what this thread is decoding right now;
    /// the pointed-to data outlives the decode call.
    static CASE: Cell<(usize, usize, usize, usize)> = const { Cell::new((0, 0, 0, 0)) };
}

/// Record what is about to be decoded on this thread.
pub fn set_case(name: &str, input: &[u8]) {
    let _ = CASE.try_with(|c| c.set((name.as_ptr() as usize, name.len(), input.as_ptr() as usize, input.len())));
}

pub fn clear_case() {
    let _ = CASE.try_with(|c| c.set((0, 0, 0, 0)));
}

fn raw_write(b: &[u8]) {
    unsafe {
        libc::write(2, b.as_ptr() as *const libc::c_void, b.len());
    }
}

/// Print the current case and leave. Async-signal-safe: raw writes only.
pub fn crash(reason: &str) -> ! {
    raw_write(b"\nCRASH ");
    raw_write(reason.as_bytes());
    raw_write(b" type=");
    let (np, nl, ip, il) = CASE.try_with(|c| c.get()).unwrap_or((0, 0, 0, 0));
    unsafe {
        if np != 0 {
            raw_write(std::slice::from_raw_parts(np as *const u8, nl));
        }
        raw_write(b" input=");
        let inp: &[u8] = if ip != 0 { std::slice::from_raw_parts(ip as *const u8, il.min(1 << 16)) } else { &[] };
        let hexd = b"0123456789abcdef";
        let mut buf = [0u8; 512];
        for chunk in inp.chunks(256) {
            for (i, b) in chunk.iter().enumerate() {
                buf[2 * i] = hexd[(b >> 4) as usize];
                buf[2 * i + 1] = hexd[(b & 15) as usize];
            }
            raw_write(&buf[..2 * chunk.len()]);
        }
        raw_write(b"\n");
        libc::_exit(86)
    }
}

extern "C" fn on_signal(sig: libc::c_int) {
    crash(match sig {
        libc::SIGSEGV => "segmentation-fault-or-stack-overflow",
        libc::SIGBUS => "bus-error",
        libc::SIGABRT => "abort",
        _ => "signal",
    })
}

/// Install handlers for the signals a misbehaving decoder can raise (on an alternate stack,
/// so that stack exhaustion is reported too).
pub fn install_crash_handlers() {
    unsafe {
        const ALT: usize = 1 << 16;
        let stack = libc::mmap(std::ptr::null_mut(), ALT, libc::PROT_READ | libc::PROT_WRITE, libc::MAP_PRIVATE | libc::MAP_ANONYMOUS, -1, 0);
        let ss = libc::stack_t { ss_sp: stack, ss_flags: 0, ss_size: ALT };
        libc::sigaltstack(&ss, std::ptr::null_mut());
        for sig in [libc::SIGSEGV, libc::SIGBUS, libc::SIGABRT] {
            let mut sa: libc::sigaction = std::mem::zeroed();
            sa.sa_sigaction = on_signal as usize;
            sa.sa_flags = libc::SA_ONSTACK;
            libc::sigemptyset(&mut sa.sa_mask);
            libc::sigaction(sig, &sa, std::ptr::null_mut());
        }
    }
}

// ---------------------------------------------------------------------------------------
// worker-side result collection
// ---------------------------------------------------------------------------------------

pub struct Ctx {
    pub tier:       Tier,
    pub seed:       u64,
    pub evals:      u64,
    pub traces:     u64,
    pub outcomes:   BTreeMap<String, u64>,
    /// (kind, witness, detail); at most one per (kind, type) -- the one with the shortest input
    pub violations: BTreeMap<(String, String), (usize, J, J)>,
    pub extra:      BTreeMap<String, J>,
}

impl Ctx {
    pub fn new(tier: Tier, seed: u64) -> Ctx { Ctx { tier, seed, evals: 0, traces: 0, outcomes: BTreeMap::new(), violations: BTreeMap::new(), extra: BTreeMap::new() } }

    pub fn outcome(&mut self, k: &str, n: u64) { *self.outcomes.entry(k.to_string()).or_insert(0) += n; }

    pub fn violation(&mut self, kind: &str, ty: &str, size: usize, witness: J, detail: J) {
        let key = (kind.to_string(), ty.to_string());
        match self.violations.get(&key) {
            Some((s, _, _)) if *s <= size => {}
            _ => {
                self.violations.insert(key, (size, witness, detail));
            }
        }
    }

    pub fn to_json(&self) -> J {
        json!({
            "evals": self.evals,
            "traces": self.traces,
            "outcomes": self.outcomes,
            "extra": self.extra,
            "violations": self.violations.iter().map(|((k, _), (_, w, d))| json!({"kind": k, "witness": w, "detail": d})).collect::<Vec<_>>(),
        })
    }
}

/// Work units of a worker: one closure per type, run on a thread pool, each with a `Ctx` of
/// its own; the results are merged.
pub struct Tasks {
    pub tier: Tier,
    pub seed: u64,
    pub list: Vec<Box<dyn FnOnce(&mut Ctx) + Send>>,
}

impl Tasks {
    pub fn new(tier: Tier, seed: u64) -> Tasks { Tasks { tier, seed, list: vec![] } }

    pub fn add(&mut self, f: impl FnOnce(&mut Ctx) + Send + 'static) { self.list.push(Box::new(f)); }

    pub fn run(self) -> Ctx {
        use rayon::prelude::*;
        let (tier, seed) = (self.tier, self.seed);
        let parts: Vec<Ctx> = self
            .list
            .into_par_iter()
            .map(|f| {
                let mut c = Ctx::new(tier, seed);
                f(&mut c);
                clear_case();
                c
            })
            .collect();
        let mut out = Ctx::new(tier, seed);
        for p in parts {
            out.evals += p.evals;
            out.traces += p.traces;
            for (k, v) in p.outcomes {
                *out.outcomes.entry(k).or_insert(0) += v;
            }
            for ((k, t), (s, w, d)) in p.violations {
                out.violation(&k, &t, s, w, d);
            }
            out.extra.extend(p.extra);
        }
        out
    }
}

// ---------------------------------------------------------------------------------------
// the sweep
// ---------------------------------------------------------------------------------------

/// A codec under test: `enc` a value, `dec` a byte string into a value and the number of
/// bytes consumed.
pub struct Codec<'a, T> {
    pub name:      &'a str,
    pub enc:       &'a dyn Fn(&T) -> Vec<u8>,
    pub dec:       &'a dyn Fn(&[u8]) -> Option<(T, usize)>,
    /// equality of values (structural where the type has it, else equality of encodings)
    pub eq:        &'a dyn Fn(&T, &T) -> bool,
    pub show:      &'a dyn Fn(&T) -> String,
    /// the decoder accepts exactly one encoding per value
    pub canonical: bool,
    /// allowed peak allocation = `alloc_const + alloc_factor * input length`
    pub alloc_const:  usize,
    pub alloc_factor: usize,
    /// also feed every byte string of length <= 2
    pub short_inputs: bool,
    /// relative cost of one decode (1 = microseconds); in the quick tier the neighbourhood
    /// of a value is strided so that it stays within 150000 / cost probes
    pub cost: usize,
}

pub fn flip(bytes: &[u8], bit: usize) -> Vec<u8> {
    let mut b = bytes.to_vec();
    b[bit / 8] ^= 1 << (bit % 8);
    b
}

/// Decode one hostile input and check totality, allocation and canonicity.
static WELLFORMED: std::sync::OnceLock<fn(&[u8]) -> bool> = std::sync::OnceLock::new();

/// An independent recogniser of the wire format (if the property has one): whatever a decoder
/// accepts must be well-formed according to it.
pub fn set_wellformed(f: fn(&[u8]) -> bool) { let _ = WELLFORMED.set(f); }

pub fn probe<T>(ctx: &mut Ctx, c: &Codec<T>, what: &str, input: &[u8]) -> Option<(T, usize)> {
    ctx.evals += 1;
    set_case(c.name, input);
    let (r, peak) = measure(|| mc_core::catch(|| (c.dec)(input)));
    let w = || json!({"type": c.name, "input": hex::encode(input), "derived_by": what});
    let r = match r {
        Ok(r) => r,
        Err(p) => {
            ctx.violation("decoder-panicked", c.name, input.len(), w(), json!({"panic": p}));
            return None;
        }
    };
    let bound = c.alloc_const + c.alloc_factor * input.len();
    if peak > bound {
        ctx.violation("allocation-exceeds-what-the-input-justifies", c.name, input.len(), w(), json!({"peak_bytes": peak, "bound_bytes": bound}));
    }
    match &r {
        Some((v, n)) => {
            ctx.traces += 1;
            if *n > input.len() {
                ctx.violation("decoder-reports-more-bytes-than-given", c.name, input.len(), w(), json!({"consumed": n}));
            } else if WELLFORMED.get().map(|f| !f(&input[..*n])).unwrap_or(false) {
                ctx.violation("ill-formed-input-accepted", c.name, input.len(), w(), json!({"consumed": n, "value": (c.show)(v).chars().take(300).collect::<String>()}));
            } else if c.canonical {
                let re = (c.enc)(v);
                if re != input[..*n] {
                    ctx.violation("non-canonical-encoding-accepted", c.name, input.len(), w(), json!({"consumed": n, "re_encoding": hex::encode(&re), "value": (c.show)(v).chars().take(400).collect::<String>()}));
                }
            } else {
                // several encodings per value are allowed: whatever was accepted must survive
                // an encode / decode cycle unchanged
                match mc_core::catch(|| {
                    let re = (c.enc)(v);
                    (c.dec)(&re).map(|(v2, n2)| (c.eq)(&v2, v) && n2 == re.len())
                }) {
                    Ok(Some(true)) => {}
                    other => ctx.violation("accepted-value-does-not-survive-re-encoding", c.name, input.len(), w(), json!({"value": (c.show)(v).chars().take(400).collect::<String>(), "outcome": format!("{other:?}")})),
                }
            }
            ctx.outcome("hostile input: accepted", 1);
        }
        None => ctx.outcome("hostile input: rejected", 1),
    }
    r
}

/// Byte offsets whose neighbourhood is explored: all of them for encodings up to 512 bytes;
/// for longer ones the first 192 and last 48 bytes and an even spread of 256 in between
/// (long encodings are long because of bulk data, whose bytes are all alike to the decoder).
pub fn offsets(len: usize) -> Vec<usize> {
    if len <= 512 {
        return (0..len).collect();
    }
    let mut v: Vec<usize> = (0..192).collect();
    let mid = len - 192 - 48;
    let step = (mid / 256).max(1);
    v.extend((192..len - 48).step_by(step));
    v.extend(len - 48..len);
    v.sort();
    v.dedup();
    v
}

/// Round trip + the complete byte neighbourhood of every value's encoding.
pub fn sweep<T>(ctx: &mut Ctx, c: &Codec<T>, values: &[T]) {
    let quick = ctx.tier == Tier::Quick;
    for (vi, v) in values.iter().enumerate() {
        ctx.evals += 1;
        let e = (c.enc)(v);
        let w = || json!({"type": c.name, "value_index": vi, "encoding": hex::encode(&e)});
        if (c.enc)(v) != e {
            ctx.violation("encoding-not-deterministic", c.name, e.len(), w(), json!({}));
        }
        set_case(c.name, &e);
        match mc_core::catch(|| (c.dec)(&e)) {
            Err(p) => ctx.violation("decoder-panicked", c.name, e.len(), w(), json!({"panic": p})),
            Ok(None) => ctx.violation("valid-encoding-rejected", c.name, e.len(), w(), json!({"value": (c.show)(v).chars().take(400).collect::<String>()})),
            Ok(Some((v2, n))) => {
                ctx.traces += 1;
                if !(c.eq)(&v2, v) {
                    ctx.violation("round-trip-changes-value", c.name, e.len(), w(), json!({"decoded": (c.show)(&v2).chars().take(400).collect::<String>()}));
                }
                if n != e.len() {
                    ctx.violation("decoder-does-not-consume-exactly-the-encoding", c.name, e.len(), w(), json!({"consumed": n, "length": e.len()}));
                }
                ctx.outcome("value: round trip ok", 1);
            }
        }
        // a trailing byte is not consumed
        for t in [0u8, 0xff] {
            let mut x = e.clone();
            x.push(t);
            if let Some((v2, n)) = probe(ctx, c, "trailing byte", &x) {
                if n != e.len() || !(c.eq)(&v2, v) {
                    // legitimate only if the longer string is itself a canonical encoding (checked by probe)
                    ctx.outcome("trailing byte: absorbed into another canonical value", 1);
                }
            }
        }
        // every proper prefix
        let offs = offsets(e.len());
        // quick tier: keep the neighbourhood of one value within the probe budget
        let planned = offs.len() * 30;
        let thin = if quick { planned.div_ceil(150_000 / c.cost.max(1)).max(1) } else { 1 };
        for &k in offs.iter().step_by(thin) {
            if let Some((_, n)) = probe(ctx, c, "truncation", &e[..k]) {
                if n > k {
                    ctx.violation("decoder-reports-more-bytes-than-given", c.name, k, json!({"type": c.name, "input": hex::encode(&e[..k])}), json!({}));
                }
            }
        }
        // every single-bit flip (quick: values beyond the third of a type are strided)
        let stride = if quick && vi >= 3 { 7 } else { 1 };
        // (an odd multiple keeps all eight bit positions in play)
        for bit in offs.iter().flat_map(|o| (0..8).map(move |b| o * 8 + b)).step_by(stride * (2 * thin - 1)) {
            probe(ctx, c, "bit flip", &flip(&e, bit));
        }
        // every aligned-or-not field of width 1, 2, 4, 8 set to 0, all-ones, +1, -1
        // (length, tag, bitmap and count fields are big-endian integers of these widths)
        let fstride = if quick && vi >= 3 { 5 } else { 1 };
        for &off in offs.iter().step_by(fstride * thin) {
            for wdt in [1usize, 2, 4, 8] {
                if off + wdt > e.len() {
                    continue;
                }
                let mut cur = [0u8; 8];
                cur[8 - wdt..].copy_from_slice(&e[off..off + wdt]);
                let cur = u64::from_be_bytes(cur);
                let max = if wdt == 8 { u64::MAX } else { (1u64 << (8 * wdt)) - 1 };
                for nv in [0, max, cur.wrapping_add(1) & max, cur.wrapping_sub(1) & max, max >> 1, 1 << (8 * wdt - 1)] {
                    if nv == cur {
                        continue;
                    }
                    let mut x = e.clone();
                    x[off..off + wdt].copy_from_slice(&nv.to_be_bytes()[8 - wdt..]);
                    probe(ctx, c, "field inflation", &x);
                }
            }
        }
        // a byte removed / duplicated at every offset
        let dstride = if quick { 3 } else { 1 };
        for &off in offs.iter().step_by(dstride * thin) {
            let mut x = e.clone();
            x.remove(off);
            probe(ctx, c, "byte removed", &x);
            let mut x = e.clone();
            x.insert(off, e[off]);
            probe(ctx, c, "byte duplicated", &x);
        }
    }
    // adjacent blocks swapped / the first copied over the second, for every block length up
    // to 128 (entries of maps, sets and lists are such blocks): only for the first value of
    // a type with at most 1024 bytes in the quick tier, for every such value otherwise
    for (vi, v) in values.iter().enumerate() {
        let e = (c.enc)(v);
        if e.len() > 1024 || (quick && vi >= 2 && c.cost > 1) {
            continue;
        }
        let thin = if quick { (e.len() * 128 * c.cost).div_ceil(400_000).max(1) } else { 1 };
        for l in 1..=128.min(e.len() / 2) {
            for off in (0..=e.len() - 2 * l).step_by(thin) {
                let (a, b) = (&e[off..off + l], &e[off + l..off + 2 * l]);
                if a == b {
                    continue;
                }
                let mut x = e.clone();
                x[off..off + l].copy_from_slice(b);
                x[off + l..off + 2 * l].copy_from_slice(a);
                probe(ctx, c, "adjacent blocks swapped", &x);
                if l >= 2 && off % 2 == 0 {
                    let mut y = e.clone();
                    y[off + l..off + 2 * l].copy_from_slice(a);
                    probe(ctx, c, "block duplicated over its successor", &y);
                }
            }
        }
    }
    // a count raised by one with an element inserted / lowered by one with an element removed:
    // every position holding a small big-endian integer (width 1, 2, 4, 8; value 1..=8) is taken
    // for an element count in front of `value` elements of every size from 1 to 140 bytes; the
    // inserted element is a copy of the last one (equal key: a duplicate) or of the first one
    // appended (keys out of order). For values of at most 600 bytes; quick: first two values.
    for (vi, v) in values.iter().enumerate() {
        let e = (c.enc)(v);
        if e.len() > 600 || e.len() < 3 || (quick && vi >= 2) {
            continue;
        }
        let max_es = if quick { 72 } else { 140 };
        let thin = if quick { (e.len() * 4 * max_es * c.cost).div_ceil(300_000).max(1) } else { 1 };
        let mut k = 0usize;
        for wdt in [1usize, 2, 4, 8] {
            for p in 0..e.len().saturating_sub(wdt) {
                let val = e[p..p + wdt].iter().fold(0u64, |a, b| (a << 8) | *b as u64);
                if val == 0 || val > 8 {
                    continue;
                }
                let put = |n: u64| -> Vec<u8> { (0..wdt).map(|i| (n >> (8 * (wdt - 1 - i))) as u8).collect() };
                for es in 1..=max_es {
                    let end = p + wdt + val as usize * es;
                    if end > e.len() {
                        break;
                    }
                    k += 1;
                    if k % thin != 0 {
                        continue;
                    }
                    let first = &e[p + wdt..p + wdt + es];
                    let last = &e[end - es..end];
                    for (what, ins) in [("count + 1, last element duplicated", last), ("count + 1, first element appended", first)] {
                        let mut x = e[..p].to_vec();
                        x.extend(put(val + 1));
                        x.extend_from_slice(&e[p + wdt..end]);
                        x.extend_from_slice(ins);
                        x.extend_from_slice(&e[end..]);
                        probe(ctx, c, what, &x);
                    }
                    let mut x = e[..p].to_vec();
                    x.extend(put(val - 1));
                    x.extend_from_slice(&e[p + wdt..end - es]);
                    x.extend_from_slice(&e[end..]);
                    probe(ctx, c, "count - 1, last element removed", &x);
                }
            }
        }
    }
    if c.short_inputs {
        probe(ctx, c, "short input", &[]);
        for a in 0..=255u8 {
            probe(ctx, c, "short input", &[a]);
        }
        let step = if quick { 5 } else { 1 };
        for a in (0..=255u8).step_by(step) {
            for b in 0..=255u8 {
                probe(ctx, c, "short input", &[a, b]);
            }
        }
    }
}

// ---------------------------------------------------------------------------------------
// parent side
// ---------------------------------------------------------------------------------------

pub struct WorkerResult {
    pub group:  String,
    pub json:   Option<J>,
    pub crash:  Option<(String, String, String)>,
    pub status: String,
}

/// Run `groups` as worker processes of this binary, at most `par` at a time.
pub fn run_workers(property: &str, tier: Tier, groups: &[String], extra_args: &[String]) -> Vec<WorkerResult> {
    use rayon::prelude::*;
    let exe = std::env::current_exe().unwrap_or_else(|e| mc_core::machinery_error(&format!("current_exe: {e}")));
    groups
        .par_iter()
        .map(|g| {
            let out = std::process::Command::new(&exe).arg(property).arg("--tier").arg(tier.as_str()).arg("--worker").arg(g).args(extra_args).output();
            let out = match out {
                Ok(o) => o,
                Err(e) => mc_core::machinery_error(&format!("cannot start worker {g}: {e}")),
            };
            let stdout = String::from_utf8_lossy(&out.stdout);
            let stderr = String::from_utf8_lossy(&out.stderr);
            let json = stdout.lines().rev().find_map(|l| l.strip_prefix("WORKER-RESULT ").and_then(|j| serde_json::from_str::<J>(j).ok()));
            let crash = stderr.lines().find_map(|l| {
                let l = l.strip_prefix("CRASH ")?;
                let (reason, rest) = l.split_once(" type=")?;
                let (ty, input) = rest.split_once(" input=")?;
                Some((reason.to_string(), ty.to_string(), input.to_string()))
            });
            if json.is_none() && crash.is_none() {
                mc_core::machinery_error(&format!("worker {g} ended without a result ({:?}); stderr tail: {}", out.status, stderr.chars().rev().take(600).collect::<String>().chars().rev().collect::<String>()));
            }
            WorkerResult { group: g.clone(), json, crash, status: format!("{:?}", out.status) }
        })
        .collect()
}

/// Merge worker results into the report.
pub fn merge(report: &mc_core::Report, results: &[WorkerResult]) {
    for r in results {
        if let Some((reason, ty, input)) = &r.crash {
            report.eval(1);
            report.violation("decoder-crashed-the-process", json!({"type": ty, "input": input, "group": r.group}), json!({"reason": reason, "status": r.status}));
        }
        if let Some(j) = &r.json {
            report.eval(j["evals"].as_u64().unwrap_or(0));
            report.trace(j["traces"].as_u64().unwrap_or(0));
            if let Some(o) = j["outcomes"].as_object() {
                for (k, v) in o {
                    report.outcome(k, v.as_u64().unwrap_or(0));
                }
            }
            if let Some(o) = j["extra"].as_object() {
                for (k, v) in o {
                    report.set_extra(&format!("{}.{k}", r.group), v.clone());
                }
            }
            for v in j["violations"].as_array().cloned().unwrap_or_default() {
                report.violation(v["kind"].as_str().unwrap_or("?"), v["witness"].clone(), v["detail"].clone());
            }
        }
    }
}
