//! C16: contract-side serialisation and basic value types (concordium-contracts-common).
//!
//! Group `binary`: small-scope value sets of every `Serial`/`Deserial` type with the byte
//! neighbourhood sweep of `harness::sweep` (canonicity makes ordered collections reject
//! unordered / duplicate input: such input would re-encode differently), plus the
//! contextual (`SizeLength`) codecs. Group `text`: all strings up to a length over a
//! per-grammar alphabet against an independent recogniser, print/parse round trips, name
//! validators, checked arithmetic against 128-bit arithmetic.

use crate::harness::*;
use concordium_contracts_common::{
    self as cc,
    constants::MAX_FUNC_NAME_SIZE,
    schema::SizeLength,
    AccountAddress, AccountBalance, Address, Amount, AttributeTag, AttributeValue, ChainMetadata, ContractAddress, Cursor, Deserial, DeserialCtx, Duration, EntrypointName, ExchangeRate, ExchangeRates, ModuleReference, OwnedContractName, OwnedEntrypointName,
    OwnedParameter, OwnedPolicy, OwnedReceiveName, Serial, SerialCtx, Timestamp,
};
use cc::{HashMap, HashSet};
use serde_json::json;
use std::{
    collections::{BTreeMap, BTreeSet},
    fmt::Debug,
    str::FromStr,
};

pub const GROUPS: [&str; 2] = ["binary", "text"];

fn dec_cc<T: Deserial>(b: &[u8]) -> Option<(T, usize)> {
    let mut c = Cursor::new(b);
    T::deserial(&mut c).ok().map(|v| (v, c.offset))
}

fn sweep_cc_enc<T: Serial + Deserial + Debug>(ctx: &mut Ctx, name: &str, values: Vec<T>) {
    let enc = |v: &T| cc::to_bytes(v);
    let dec = |b: &[u8]| dec_cc::<T>(b);
    let eq = |a: &T, b: &T| cc::to_bytes(a) == cc::to_bytes(b);
    let show = |v: &T| format!("{v:?}");
    let c = Codec { name, enc: &enc, dec: &dec, eq: &eq, show: &show, canonical: true, alloc_const: 4 << 20, alloc_factor: 64, short_inputs: true, cost: 1 };
    sweep(ctx, &c, &values);
    ctx.extra.insert(format!("values.{name}"), json!(values.len()));
}

fn sweep_cc<T: Serial + Deserial + Debug + PartialEq>(ctx: &mut Ctx, name: &str, values: Vec<T>, canonical: bool) {
    let enc = |v: &T| cc::to_bytes(v);
    let dec = |b: &[u8]| dec_cc::<T>(b);
    let eq = |a: &T, b: &T| a == b;
    let show = |v: &T| format!("{v:?}");
    let c = Codec { name, enc: &enc, dec: &dec, eq: &eq, show: &show, canonical, alloc_const: 4 << 20, alloc_factor: 64, short_inputs: true, cost: 1 };
    sweep(ctx, &c, &values);
    ctx.extra.insert(format!("values.{name}"), json!(values.len()));
}

/// contextual codecs: the length prefix has the given width
fn sweep_ctx<T: SerialCtx + DeserialCtx + Debug + PartialEq>(ctx: &mut Ctx, name: &str, sl: SizeLength, ordered: bool, values: Vec<T>, canonical: bool) {
    let enc = |v: &T| {
        let mut out = Vec::new();
        v.serial_ctx(sl, &mut out).expect("length fits");
        out
    };
    let dec = |b: &[u8]| {
        let mut c = Cursor::new(b);
        T::deserial_ctx(sl, ordered, &mut c).ok().map(|v| (v, c.offset))
    };
    let eq = |a: &T, b: &T| a == b;
    let show = |v: &T| format!("{v:?}");
    let full = format!("{name} [{sl:?}, ordered={ordered}]");
    let c = Codec { name: &full, enc: &enc, dec: &dec, eq: &eq, show: &show, canonical, alloc_const: 4 << 20, alloc_factor: 64, short_inputs: true, cost: 1 };
    sweep(ctx, &c, &values);
    ctx.extra.insert(format!("values.{full}"), json!(values.len()));
}

macro_rules! t {
    ($t:expr, $ty:ty, $vals:expr) => {{
        let vals: Vec<$ty> = $vals;
        $t.add(move |ctx: &mut Ctx| sweep_cc::<$ty>(ctx, stringify!($ty), vals, true))
    }};
    ($t:expr, $ty:ty, $vals:expr, by_encoding) => {{
        let vals: Vec<$ty> = $vals;
        $t.add(move |ctx: &mut Ctx| sweep_cc_enc::<$ty>(ctx, stringify!($ty), vals))
    }};
    ($t:expr, $ty:ty, $vals:expr, noncanonical) => {{
        let vals: Vec<$ty> = $vals;
        $t.add(move |ctx: &mut Ctx| sweep_cc::<$ty>(ctx, stringify!($ty), vals, false))
    }};
}

pub fn run_group(tasks: &mut Tasks, group: &str) {
    match group {
        "binary" => binary(tasks),
        "text" => text(tasks),
        g => mc_core::machinery_error(&format!("unknown C16 group {g}")),
    }
}

fn binary(t: &mut Tasks) {
    t!(t, (), vec![()]);
    t!(t, u8, vec![0, 1, 0x7f, 0x80, 0xff]);
    t!(t, u16, vec![0, 1, 0xff, 0x100, u16::MAX]);
    t!(t, u32, vec![0, 1, 0xffff, 0x10000, u32::MAX]);
    t!(t, u64, vec![0, 1, u32::MAX as u64 + 1, u64::MAX]);
    t!(t, u128, vec![0, 1, u64::MAX as u128 + 1, u128::MAX]);
    t!(t, i8, vec![0, 1, -1, i8::MIN, i8::MAX]);
    t!(t, i16, vec![0, 1, -1, i16::MIN, i16::MAX]);
    t!(t, i32, vec![0, 1, -1, i32::MIN, i32::MAX]);
    t!(t, i64, vec![0, 1, -1, i64::MIN, i64::MAX]);
    t!(t, i128, vec![0, 1, -1, i128::MIN, i128::MAX]);
    t!(t, bool, vec![false, true]);
    t!(t, (u8, u16), vec![(0, 0), (255, 65535)]);
    t!(t, (u8, bool, u32), vec![(0, false, 0), (255, true, u32::MAX)]);
    t!(t, (u8, u8, u8, u8), vec![(1, 2, 3, 4)]);
    t!(t, (u8, u8, u8, u8, u16), vec![(1, 2, 3, 4, 5)]);
    t!(t, Option<u8>, vec![None, Some(0), Some(255)]);
    t!(t, Option<Option<bool>>, vec![None, Some(None), Some(Some(true))]);
    t!(t, Box<u16>, vec![Box::new(7)]);
    t!(t, [u8; 0], vec![[]]);
    t!(t, [u8; 3], vec![[0, 1, 255]]);
    t!(t, [u16; 2], vec![[0, 65535]]);
    t!(t, String, vec![String::new(), "a".into(), "é€".into(), "x".repeat(300)]);
    t!(t, Vec<u8>, vec![vec![], vec![0], vec![1, 2], vec![7; 5000]]);
    // lengths around the pre-allocation bound (4096) of the chunked readers and its multiples
    t!(t, Vec<u8>, [4095usize, 4096, 4097, 8192, 12288].iter().map(|n| (0..*n).map(|i| (i % 251) as u8).collect()).collect());
    t!(t, String, [4095usize, 4096, 4097, 8192, 12288].iter().map(|n| "s".repeat(*n)).collect());
    t!(t, Vec<u16>, [4095usize, 4096, 4097, 8192].iter().map(|n| (0..*n).map(|i| i as u16).collect()).collect());
    t!(t, Vec<String>, vec![vec!["a".repeat(4096), "b".repeat(8192), "c".into()]]);
    t!(t, OwnedParameter, [4096usize, 8192, 12288].iter().map(|n| OwnedParameter::new_unchecked(vec![5u8; *n])).collect());
    t!(t, Vec<u16>, vec![vec![], vec![0, 65535]]);
    t!(t, Vec<Vec<u8>>, vec![vec![], vec![vec![]], vec![vec![1], vec![]]]);
    t!(t, Vec<()>, vec![vec![], vec![(); 3]]);
    // the plain `Deserial` impls of BTreeMap / BTreeSet are documented NOT to check the order
    // (only duplicates); the order-checking decoders are exercised below
    t!(t, BTreeMap<u8, u8>, vec![BTreeMap::new(), [(0, 0)].into(), [(0, 9), (1, 8), (255, 7)].into()], noncanonical);
    t!(t, BTreeMap<u16, String>, vec![[(1, "a".to_string()), (256, String::new())].into()], noncanonical);
    t!(t, BTreeSet<u8>, vec![BTreeSet::new(), [0].into(), [0, 1, 255].into()], noncanonical);
    t!(t, BTreeSet<u16>, vec![[1, 256, 257].into()], noncanonical);
    // hash collections are written in iteration order: no unique encoding
    t!(t, HashMap<u8, u8>, vec![HashMap::default(), [(0u8, 0u8)].into_iter().collect(), [(0u8, 9u8), (1, 8)].into_iter().collect()], noncanonical);
    t!(t, HashSet<u8>, vec![HashSet::default(), [0u8].into_iter().collect(), [0u8, 1].into_iter().collect()], noncanonical);
    t!(t, Amount, vec![Amount::from_micro_ccd(0), Amount::from_micro_ccd(1), Amount::from_micro_ccd(u64::MAX)]);
    t!(t, AccountBalance, vec![AccountBalance::new(Amount::from_micro_ccd(0), Amount::from_micro_ccd(0), Amount::from_micro_ccd(0)).unwrap(), AccountBalance::new(Amount::from_micro_ccd(u64::MAX), Amount::from_micro_ccd(u64::MAX), Amount::from_micro_ccd(1)).unwrap()]);
    t!(t, cc::AccountThreshold, vec![cc::AccountThreshold::try_from(1u8).unwrap(), cc::AccountThreshold::try_from(255u8).unwrap()]);
    t!(t, cc::SignatureThreshold, vec![cc::SignatureThreshold::try_from(1u8).unwrap(), cc::SignatureThreshold::try_from(255u8).unwrap()]);
    t!(t, ExchangeRate, vec![ExchangeRate::new_unchecked(1, 1), ExchangeRate::new_unchecked(u64::MAX, 1), ExchangeRate::new_unchecked(7, 3)]);
    t!(t, ExchangeRates, vec![ExchangeRates { euro_per_energy: ExchangeRate::new_unchecked(1, 50000), micro_ccd_per_euro: ExchangeRate::new_unchecked(u64::MAX, 3) }]);
    t!(t, Timestamp, vec![Timestamp::from_timestamp_millis(0), Timestamp::from_timestamp_millis(u64::MAX)]);
    t!(t, Duration, vec![Duration::from_millis(0), Duration::from_millis(u64::MAX)]);
    t!(t, AccountAddress, vec![AccountAddress([0; 32]), AccountAddress([255; 32])]);
    t!(t, ContractAddress, vec![ContractAddress::new(0, 0), ContractAddress::new(u64::MAX, 1)]);
    t!(t, Address, vec![Address::Account(AccountAddress([3; 32])), Address::Contract(ContractAddress::new(1, 2))]);
    t!(t, OwnedContractName, ["init_", "init_a", &format!("init_{}", "c".repeat(95))].iter().map(|s| OwnedContractName::new(s.to_string()).unwrap()).collect());
    t!(t, OwnedReceiveName, [".", "a.b", &format!("{}.{}", "c".repeat(50), "d".repeat(49))].iter().map(|s| OwnedReceiveName::new(s.to_string()).unwrap()).collect());
    t!(t, OwnedEntrypointName, ["", "a", &"e".repeat(99)].iter().map(|s| OwnedEntrypointName::new(s.to_string()).unwrap()).collect());
    t!(t, OwnedParameter, [0usize, 1, 65535].iter().map(|n| OwnedParameter::new_unchecked(vec![3u8; *n])).collect());
    t!(t, ChainMetadata, vec![ChainMetadata { slot_time: Timestamp::from_timestamp_millis(5) }], by_encoding);
    t!(t, AttributeTag, vec![AttributeTag(0), AttributeTag(255)]);
    t!(t, AttributeValue, vec![AttributeValue::new(&[]).unwrap(), AttributeValue::new(&[1]).unwrap(), AttributeValue::new(&[9; 31]).unwrap()]);
    t!(t, OwnedPolicy, vec![
        OwnedPolicy { identity_provider: 0, created_at: Timestamp::from_timestamp_millis(1), valid_to: Timestamp::from_timestamp_millis(2), items: vec![] },
        OwnedPolicy { identity_provider: u32::MAX, created_at: Timestamp::from_timestamp_millis(1), valid_to: Timestamp::from_timestamp_millis(2), items: vec![(AttributeTag(0), AttributeValue::new(&[]).unwrap()), (AttributeTag(3), AttributeValue::new(&[7; 31]).unwrap())] },
    ], by_encoding);
    t!(t, ModuleReference, vec![ModuleReference::from([0u8; 32]), ModuleReference::from([255u8; 32])]);
    t!(t, cc::PublicKeyEd25519, vec![cc::PublicKeyEd25519([1; 32])]);
    t!(t, cc::SignatureEd25519, vec![cc::SignatureEd25519([2; 64])]);
    t!(t, cc::PublicKeyEcdsaSecp256k1, vec![cc::PublicKeyEcdsaSecp256k1([3; 33])]);
    t!(t, cc::SignatureEcdsaSecp256k1, vec![cc::SignatureEcdsaSecp256k1([4; 64])]);
    // contextual codecs: every length width, ordered and unordered decoding
    for sl in [SizeLength::U8, SizeLength::U16, SizeLength::U32, SizeLength::U64] {
        t.add(move |ctx: &mut Ctx| sweep_ctx::<Vec<u8>>(ctx, "Vec<u8>", sl, true, vec![vec![], vec![1], vec![7; 255]], true));
        t.add(move |ctx: &mut Ctx| sweep_ctx::<String>(ctx, "String", sl, true, vec![String::new(), "aé".into()], true));
        t.add(move |ctx: &mut Ctx| sweep_ctx::<BTreeSet<u8>>(ctx, "BTreeSet<u8>", sl, true, vec![BTreeSet::new(), [0, 1, 255].into()], true));
        t.add(move |ctx: &mut Ctx| sweep_ctx::<BTreeMap<u8, u16>>(ctx, "BTreeMap<u8, u16>", sl, true, vec![BTreeMap::new(), [(0, 9), (1, 8), (255, 7)].into()], true));
        // without the order check the decoders accept any order (and overwrite duplicates)
        t.add(move |ctx: &mut Ctx| sweep_ctx::<BTreeSet<u8>>(ctx, "BTreeSet<u8>", sl, false, vec![[0, 1, 255].into()], false));
        t.add(move |ctx: &mut Ctx| sweep_ctx::<BTreeMap<u8, u16>>(ctx, "BTreeMap<u8, u16>", sl, false, vec![[(0, 9), (255, 7)].into()], false));
        t.add(move |ctx: &mut Ctx| sweep_ctx::<HashSet<u8>>(ctx, "HashSet<u8>", sl, false, vec![[0u8, 1].into_iter().collect()], false));
        t.add(move |ctx: &mut Ctx| sweep_ctx::<HashMap<u8, u8>>(ctx, "HashMap<u8, u8>", sl, false, vec![[(0u8, 9u8), (1, 8)].into_iter().collect()], false));
    }
    // ordered collections: every adjacent swap and every duplication of an entry is rejected
    t.add(|ctx: &mut Ctx| {
        let sets: Vec<BTreeSet<u16>> = vec![[1, 2].into(), [0, 255, 256, 65535].into()];
        for s in sets {
            let items: Vec<u16> = s.iter().copied().collect();
            let enc = |xs: &[u16]| {
                let mut out = (xs.len() as u32).to_le_bytes().to_vec();
                for x in xs {
                    out.extend_from_slice(&x.to_le_bytes());
                }
                out
            };
            assert_eq!(enc(&items), cc::to_bytes(&s));
            for i in 0..items.len() {
                let mut dup = items.clone();
                dup.insert(i, items[i]);
                let mut variants = vec![("entry duplicated", dup)];
                if i + 1 < items.len() {
                    let mut sw = items.clone();
                    sw.swap(i, i + 1);
                    variants.push(("adjacent entries swapped", sw));
                }
                for (what, v) in variants {
                    ctx.evals += 1;
                    let is_dup = what == "entry duplicated";
                    // the order-checking decoders reject both; the plain `Deserial` impls are
                    // documented to reject duplicates only (and must then yield the same set)
                    let body: Vec<u8> = v.iter().flat_map(|x| x.to_le_bytes()).collect();
                    let mbody: Vec<u8> = v.iter().flat_map(|x| [x.to_le_bytes()[0], x.to_le_bytes()[1], 7]).collect();
                    let w = |ty: &str, b: &[u8]| json!({"type": ty, "input": hex::encode(b), "derived_by": what});
                    if cc::deserial_set_no_length::<_, u16>(&mut Cursor::new(&body[..]), v.len()).is_ok() {
                        ctx.violation("unordered-or-duplicate-collection-accepted", "deserial_set_no_length", body.len(), w("deserial_set_no_length<u16>", &body), json!({}));
                    }
                    if cc::deserial_map_no_length::<_, u16, u8>(&mut Cursor::new(&mbody[..]), v.len()).is_ok() {
                        ctx.violation("unordered-or-duplicate-collection-accepted", "deserial_map_no_length", mbody.len(), w("deserial_map_no_length<u16, u8>", &mbody), json!({}));
                    }
                    let b = enc(&v);
                    match dec_cc::<BTreeSet<u16>>(&b) {
                        Some(_) if is_dup => ctx.violation("unordered-or-duplicate-collection-accepted", "BTreeSet<u16>", b.len(), w("BTreeSet<u16>", &b), json!({})),
                        Some((got, _)) if got != s => ctx.violation("round-trip-changes-value", "BTreeSet<u16>", b.len(), w("BTreeSet<u16>", &b), json!({})),
                        _ => {}
                    }
                    let mut mb = (v.len() as u32).to_le_bytes().to_vec();
                    mb.extend_from_slice(&mbody);
                    if is_dup && dec_cc::<BTreeMap<u16, u8>>(&mb).is_some() {
                        ctx.violation("unordered-or-duplicate-collection-accepted", "BTreeMap<u16, u8>", mb.len(), w("BTreeMap<u16, u8>", &mb), json!({}));
                    }
                    ctx.outcome("ordered collection: hostile order handled as documented", 1);
                }
            }
        }
    });
}

// ---------------------------------------------------------------------------------------
// text forms
// ---------------------------------------------------------------------------------------

/// all strings over `alphabet` of length <= `max`
fn strings(alphabet: &[char], max: usize) -> Vec<String> {
    let mut out = vec![String::new()];
    let mut layer = vec![String::new()];
    for _ in 0..max {
        let mut next = vec![];
        for s in &layer {
            for c in alphabet {
                let mut x = s.clone();
                x.push(*c);
                next.push(x);
            }
        }
        out.extend(next.iter().cloned());
        layer = next;
    }
    out
}

/// Independent recogniser of the documented amount grammar `n[.m]`: n = "0" or a digit
/// string without leading zero, m = 1..6 digits; value in micro CCD must fit 64 bits.
fn amount_oracle(s: &str) -> Option<u64> {
    let (n, m) = match s.split_once('.') {
        Some((n, m)) => (n, Some(m)),
        None => (s, None),
    };
    if n.is_empty() || !n.bytes().all(|b| b.is_ascii_digit()) || (n.len() > 1 && n.starts_with('0')) {
        return None;
    }
    let mut micro: u128 = n.parse::<u128>().ok()?.checked_mul(1_000_000)?;
    if let Some(m) = m {
        if m.is_empty() || m.len() > 6 || !m.bytes().all(|b| b.is_ascii_digit()) {
            return None;
        }
        let frac: u128 = m.parse().ok()?;
        micro += frac * 10u128.pow(6 - m.len() as u32);
    }
    u64::try_from(micro).ok()
}

/// Independent recogniser of the documented duration grammar: whitespace separated
/// measures `<digits><unit>`, unit in ms, s, m, h, d. `None` = malformed; `Some(None)` =
/// well-formed but some component or the sum does not fit 64 bits (outside the claim).
fn duration_oracle(s: &str) -> Option<Option<u64>> {
    let mut total: Option<u128> = Some(0);
    for measure in s.split_whitespace() {
        let digits: String = measure.chars().take_while(|c| c.is_ascii_digit()).collect();
        let unit = &measure[digits.len()..];
        if digits.is_empty() {
            return None;
        }
        let mult: u128 = match unit {
            "ms" => 1,
            "s" => 1000,
            "m" => 60_000,
            "h" => 3_600_000,
            "d" => 86_400_000,
            _ => return None,
        };
        match digits.parse::<u64>() {
            Ok(n) => total = total.map(|t| t + n as u128 * mult),
            // the number itself does not fit 64 bits: the library reports a parse failure
            Err(_) => return None,
        }
    }
    Some(total.and_then(|t| u64::try_from(t).ok()))
}

fn name_ok_chars(s: &str) -> bool { s.chars().all(|c| c.is_ascii_alphanumeric() || c.is_ascii_punctuation()) }

fn text(t: &mut Tasks) {
    let quick = t.tier == mc_core::Tier::Quick;
    // ---- amounts --------------------------------------------------------------------------
    t.add(move |ctx: &mut Ctx| {
        let mut cands = strings(&['0', '1', '9', '.', '-', ' ', 'a', '+'], if quick { 5 } else { 6 });
        for b in ["18446744073709.551615", "18446744073709.551616", "18446744073709.55161", "18446744073710", "18446744073709", "18446744073709.5516150", "0.000001", "0.0000001", "1.000000", "00.1", "01", "1.", ".1", "1.1.1", "1e3", "١", "1_0", " 1", "1 ", "18446744073709551615", "99999999999999999999999"] {
            cands.push(b.to_string());
        }
        for s in &cands {
            ctx.evals += 1;
            let got = mc_core::catch(|| Amount::from_str(s).ok().map(|a| a.micro_ccd()));
            let want = amount_oracle(s);
            match got {
                Err(p) => ctx.violation("parser-panicked", "Amount", s.len(), json!({"type": "Amount", "text": s}), json!({"panic": p})),
                Ok(g) if g != want => ctx.violation("text-parser-differs-from-grammar", "Amount", s.len(), json!({"type": "Amount", "text": s}), json!({"parsed": g, "grammar": want})),
                Ok(g) => ctx.outcome(if g.is_some() { "amount text: accepted" } else { "amount text: rejected" }, 1),
            }
        }
        for v in [0u64, 1, 999_999, 1_000_000, 1_000_001, 1_500_000, u64::MAX - 1, u64::MAX, 10u64.pow(19)] {
            ctx.evals += 1;
            let a = Amount::from_micro_ccd(v);
            let printed = a.to_string();
            if Amount::from_str(&printed).ok() != Some(a) {
                ctx.violation("print-parse-round-trip", "Amount", printed.len(), json!({"type": "Amount", "value": v, "printed": printed}), json!({}));
            }
            ctx.traces += 1;
        }
        ctx.extra.insert("amount_strings".into(), json!(cands.len()));
    });
    // ---- durations --------------------------------------------------------------------------
    t.add(move |ctx: &mut Ctx| {
        let mut cands = strings(&['0', '1', '9', 'm', 's', 'h', 'd', ' ', 'x'], if quick { 5 } else { 6 });
        for b in ["18446744073709551615ms", "18446744073709551616ms", "213503982334d", "213503982335d", "1d 2h 3m 4s 5ms", "1d\t2h", "1d  2h", "10d 1h 2m 3s 4s", "1 d", "d", "1D", "1ms1s", "-1s", "+1s", "1.5s", "18446744073709551s 615ms", "0d 0h 0m 0s 0ms"] {
            cands.push(b.to_string());
        }
        for s in &cands {
            ctx.evals += 1;
            let want = duration_oracle(s);
            if want == Some(None) {
                // well-formed but overflowing 64 bits: outside the claim (observation O4)
                ctx.outcome("duration text: overflow (outside the claim)", 1);
                continue;
            }
            let got = mc_core::catch(|| Duration::from_str(s).ok().map(|d| d.millis()));
            match got {
                Err(p) => ctx.violation("parser-panicked", "Duration", s.len(), json!({"type": "Duration", "text": s}), json!({"panic": p})),
                Ok(g) if g != want.flatten() => ctx.violation("text-parser-differs-from-grammar", "Duration", s.len(), json!({"type": "Duration", "text": s}), json!({"parsed": g, "grammar": want})),
                Ok(g) => ctx.outcome(if g.is_some() { "duration text: accepted" } else { "duration text: rejected" }, 1),
            }
        }
        for v in [0u64, 1, 999, 1000, 59_999, 60_000, 3_599_999, 3_600_000, 86_399_999, 86_400_000, u64::MAX - 1, u64::MAX] {
            ctx.evals += 1;
            let d = Duration::from_millis(v);
            let printed = d.to_string();
            if Duration::from_str(&printed).ok() != Some(d) {
                ctx.violation("print-parse-round-trip", "Duration", printed.len(), json!({"type": "Duration", "value": v, "printed": printed}), json!({}));
            }
            ctx.traces += 1;
        }
    });
    // ---- timestamps ------------------------------------------------------------------------
    t.add(|ctx: &mut Ctx| {
        // the largest instant chrono can represent, in milliseconds
        let chrono_max = chrono::DateTime::<chrono::Utc>::MAX_UTC.timestamp_millis() as u64;
        for v in [0u64, 1, 999, 1000, 86_399_999, 86_400_000, 951_782_400_000 /* 2000-02-29 */, 1_693_264_335_000, 253_402_300_799_999 /* 9999-12-31T23:59:59.999 */, 253_402_300_800_000, chrono_max - 1, chrono_max, chrono_max + 1, i64::MAX as u64, i64::MAX as u64 + 1, u64::MAX] {
            ctx.evals += 1;
            let ts = Timestamp::from_timestamp_millis(v);
            let printed = mc_core::catch(|| ts.to_string());
            match printed {
                Err(p) => ctx.violation("printer-panicked", "Timestamp", 8, json!({"type": "Timestamp", "value": v}), json!({"panic": p})),
                Ok(printed) => match mc_core::catch(|| Timestamp::from_str(&printed).ok()) {
                    Err(p) => ctx.violation("parser-panicked", "Timestamp", printed.len(), json!({"type": "Timestamp", "text": printed}), json!({"panic": p})),
                    Ok(back) => {
                        if back != Some(ts) {
                            ctx.violation("print-parse-round-trip", "Timestamp", printed.len(), json!({"type": "Timestamp", "value": v, "printed": printed}), json!({"parsed": back.map(|t| t.timestamp_millis())}));
                        }
                        ctx.traces += 1;
                    }
                },
            }
        }
        let cases: Vec<(&str, Option<u64>)> = vec![
            ("0", Some(0)),
            ("18446744073709551615", Some(u64::MAX)),
            ("18446744073709551616", None),
            ("1970-01-01T00:00:00Z", Some(0)),
            ("1970-01-01T00:00:00.001Z", Some(1)),
            ("1970-01-01T01:00:00+01:00", Some(0)),
            ("1969-12-31T23:59:59.999Z", None),
            ("2000-02-29T00:00:00Z", Some(951_782_400_000)),
            ("2001-02-29T00:00:00Z", None),
            ("1970-01-01 00:00:00Z", Some(0)),
            ("1970-01-01T00:00:00", None),
            ("", None),
            ("-1", None),
            ("1e3", None),
        ];
        for (s, want) in cases {
            ctx.evals += 1;
            let got = mc_core::catch(|| Timestamp::from_str(s).ok().map(|t| t.timestamp_millis()));
            match got {
                Err(p) => ctx.violation("parser-panicked", "Timestamp", s.len(), json!({"type": "Timestamp", "text": s}), json!({"panic": p})),
                Ok(g) => {
                    // "1970-01-01 00:00:00Z": chrono's RFC 3339 parser is lenient about the separator; recorded, not required
                    if s.contains(' ') {
                        ctx.outcome(if g.is_some() { "timestamp text with space separator: accepted" } else { "timestamp text with space separator: rejected" }, 1);
                    } else if g != want {
                        ctx.violation("text-parser-differs-from-grammar", "Timestamp", s.len(), json!({"type": "Timestamp", "text": s}), json!({"parsed": g, "expected": want}));
                    }
                }
            }
        }
    });
    // ---- addresses --------------------------------------------------------------------------
    t.add(move |ctx: &mut Ctx| {
        let addrs = [AccountAddress([0; 32]), AccountAddress([255; 32]), AccountAddress(core::array::from_fn(|i| i as u8))];
        let b58 = "123456789ABCDEFGHJKLMNPQRSTUVWXYZabcdefghijkmnopqrstuvwxyz";
        for a in addrs {
            ctx.evals += 1;
            let printed = a.to_string();
            if AccountAddress::from_str(&printed).ok() != Some(a) {
                ctx.violation("print-parse-round-trip", "AccountAddress", printed.len(), json!({"type": "AccountAddress", "printed": printed}), json!({}));
            }
            // every single character replaced by every other base58 character (quick: 5 of them)
            let chars: Vec<char> = printed.chars().collect();
            for i in 0..chars.len() {
                for (k, c) in b58.chars().enumerate() {
                    if c == chars[i] || (quick && k % 12 != i % 12) {
                        continue;
                    }
                    ctx.evals += 1;
                    let mut x = chars.clone();
                    x[i] = c;
                    let s: String = x.into_iter().collect();
                    match mc_core::catch(|| AccountAddress::from_str(&s).ok()) {
                        Err(p) => ctx.violation("parser-panicked", "AccountAddress", s.len(), json!({"type": "AccountAddress", "text": s}), json!({"panic": p})),
                        Ok(Some(b)) => {
                            // accepted: must be a proper base58check string of another address
                            if b.to_string() != s || b == a {
                                ctx.violation("corrupted-address-text-accepted", "AccountAddress", s.len(), json!({"type": "AccountAddress", "text": s}), json!({"original": printed}));
                            }
                            ctx.outcome("address text: substitution yields another valid address", 1);
                        }
                        Ok(None) => ctx.outcome("address text: substitution rejected", 1),
                    }
                }
                // a character removed
                let mut x = chars.clone();
                x.remove(i);
                let s: String = x.into_iter().collect();
                ctx.evals += 1;
                if AccountAddress::from_str(&s).is_ok() {
                    ctx.violation("corrupted-address-text-accepted", "AccountAddress", s.len(), json!({"type": "AccountAddress", "text": s}), json!({"original": printed, "what": "character removed"}));
                }
            }
            for s in ["", "0", "O", "l", "I", &printed[1..], &format!("{printed}1"), &format!(" {printed}")] {
                ctx.evals += 1;
                if AccountAddress::from_str(s).is_ok() {
                    ctx.violation("corrupted-address-text-accepted", "AccountAddress", s.len(), json!({"type": "AccountAddress", "text": s}), json!({}));
                }
            }
        }
        for c in [ContractAddress::new(0, 0), ContractAddress::new(1, u64::MAX), ContractAddress::new(u64::MAX, 0)] {
            ctx.evals += 1;
            let printed = c.to_string();
            if ContractAddress::from_str(&printed).ok() != Some(c) || Address::from_str(&printed).ok() != Some(Address::Contract(c)) {
                ctx.violation("print-parse-round-trip", "ContractAddress", printed.len(), json!({"type": "ContractAddress", "printed": printed}), json!({}));
            }
        }
        for s in ["", "<", ">", "<>", "<,>", "<1>", "<1,>", "<,1>", "1,2", "<1,2", "1,2>", "<1;2>", "<18446744073709551616,0>", "<0,18446744073709551616>", "<-1,0>", "<1,2,3>", "<1, 2>", "< 1,2>", "<1,2> ", "<a,b>"] {
            ctx.evals += 1;
            match mc_core::catch(|| ContractAddress::from_str(s).ok()) {
                Err(p) => ctx.violation("parser-panicked", "ContractAddress", s.len(), json!({"type": "ContractAddress", "text": s}), json!({"panic": p})),
                Ok(Some(_)) => ctx.violation("malformed-text-accepted", "ContractAddress", s.len(), json!({"type": "ContractAddress", "text": s}), json!({})),
                Ok(None) => ctx.outcome("contract address text: rejected", 1),
            }
        }
    });
    // ---- names ------------------------------------------------------------------------------
    t.add(move |ctx: &mut Ctx| {
        let alphabet = ['a', '.', '_', 'i', 'n', 't', ' ', 'é', '\u{7f}', 'Z', '0'];
        let mut cands = strings(&alphabet, if quick { 3 } else { 4 });
        // prefixes that make short strings interesting for the init_ rule
        let extra: Vec<String> = cands.iter().filter(|s| s.chars().count() <= 2).map(|s| format!("init_{s}")).collect();
        cands.extend(extra);
        for n in [94usize, 95, 96, 99, 100, 101] {
            cands.push(format!("init_{}", "c".repeat(n)));
            cands.push(format!("{}.{}", "c".repeat(n / 2), "d".repeat(n - n / 2)));
            cands.push("e".repeat(n));
        }
        cands.push("init_a.b".into());
        cands.push("init_é".into());
        cands.push("a.b.c".into());
        for s in &cands {
            ctx.evals += 3;
            let contract_want = s.starts_with("init_") && s.len() <= MAX_FUNC_NAME_SIZE && !s.contains('.') && name_ok_chars(s);
            let receive_want = s.contains('.') && s.len() <= MAX_FUNC_NAME_SIZE && name_ok_chars(s);
            // documented: "less than MAX_FUNC_NAME_SIZE bytes"
            let entry_want = s.len() < MAX_FUNC_NAME_SIZE && name_ok_chars(s);
            let w = |ty: &str| json!({"type": ty, "text": s});
            if OwnedContractName::new(s.clone()).is_ok() != contract_want || cc::ContractName::new(s).is_ok() != contract_want || cc::ContractName::is_valid_contract_name(s).is_ok() != contract_want {
                ctx.violation("name-validator-differs-from-grammar", "ContractName", s.len(), w("ContractName"), json!({"grammar": contract_want}));
            }
            if OwnedReceiveName::new(s.clone()).is_ok() != receive_want || cc::ReceiveName::new(s).is_ok() != receive_want || OwnedReceiveName::from_str(s).is_ok() != receive_want {
                ctx.violation("name-validator-differs-from-grammar", "ReceiveName", s.len(), w("ReceiveName"), json!({"grammar": receive_want}));
            }
            if OwnedEntrypointName::new(s.clone()).is_ok() != entry_want || EntrypointName::new(s).is_ok() != entry_want {
                ctx.violation("name-validator-differs-from-grammar", "EntrypointName", s.len(), w("EntrypointName"), json!({"grammar": entry_want}));
            }
            // a valid receive name splits at the first dot into contract and entrypoint
            if let Ok(r) = OwnedReceiveName::new(s.clone()) {
                let rn = r.as_receive_name();
                let (c, e) = s.split_once('.').unwrap();
                if rn.contract_name() != c || rn.entrypoint_name().to_string() != e || r.to_string() != *s {
                    ctx.violation("receive-name-parts-differ", "ReceiveName", s.len(), w("ReceiveName"), json!({}));
                }
            }
        }
        ctx.extra.insert("name_strings".into(), json!(cands.len()));
    });
    // ---- the remaining printed forms: hex-printed keys, signatures and hashes, versions, rates --
    t.add(move |ctx: &mut Ctx| {
        fn hex_type<T: FromStr + std::fmt::Display + PartialEq>(ctx: &mut Ctx, name: &str, nbytes: usize, make: &dyn Fn(&[u8]) -> T) {
            for fill in [0u8, 0xff, 0xa5] {
                let bytes: Vec<u8> = (0..nbytes).map(|i| fill ^ (i as u8).wrapping_mul(29)).collect();
                let v = make(&bytes);
                let printed = v.to_string();
                ctx.evals += 1;
                if printed != hex::encode(&bytes) || T::from_str(&printed).ok().as_ref() != Some(&v) {
                    ctx.violation("print-parse-round-trip", name, printed.len(), json!({"type": name, "printed": printed}), json!({}));
                }
                // one character fewer / more, a character outside the hex alphabet at every position
                let chars: Vec<char> = printed.chars().collect();
                let mut bad: Vec<String> = vec![printed[..printed.len() - 1].to_string(), format!("{printed}0"), format!("{printed}00"), printed[..printed.len() - 2].to_string(), String::new(), format!("0x{printed}"), format!(" {printed}")];
                for i in 0..chars.len() {
                    for c in ['g', ' ', 'é', '-'] {
                        let mut x = chars.clone();
                        x[i] = c;
                        bad.push(x.into_iter().collect());
                    }
                }
                for b in bad {
                    ctx.evals += 1;
                    if T::from_str(&b).is_ok() {
                        ctx.violation("ill-formed-text-accepted", name, b.len(), json!({"type": name, "text": b}), json!({}));
                    }
                }
            }
            ctx.outcome("hex-printed type: round trip ok", 1);
        }
        hex_type::<cc::PublicKeyEd25519>(ctx, "PublicKeyEd25519", 32, &|b| cc::PublicKeyEd25519(b.try_into().unwrap()));
        hex_type::<cc::PublicKeyEcdsaSecp256k1>(ctx, "PublicKeyEcdsaSecp256k1", 33, &|b| cc::PublicKeyEcdsaSecp256k1(b.try_into().unwrap()));
        hex_type::<cc::SignatureEd25519>(ctx, "SignatureEd25519", 64, &|b| cc::SignatureEd25519(b.try_into().unwrap()));
        hex_type::<cc::SignatureEcdsaSecp256k1>(ctx, "SignatureEcdsaSecp256k1", 64, &|b| cc::SignatureEcdsaSecp256k1(b.try_into().unwrap()));
        hex_type::<ModuleReference>(ctx, "ModuleReference", 32, &|b| ModuleReference::from(<[u8; 32]>::try_from(b).unwrap()));
        // addresses of either kind
        for a in [Address::Account(AccountAddress([3; 32])), Address::Contract(ContractAddress::new(0, 0)), Address::Contract(ContractAddress::new(u64::MAX, u64::MAX))] {
            ctx.evals += 1;
            let printed = a.to_string();
            if Address::from_str(&printed).ok() != Some(a) {
                ctx.violation("print-parse-round-trip", "Address", printed.len(), json!({"type": "Address", "printed": printed}), json!({}));
            }
        }
        for v in [cc::WasmVersion::V0, cc::WasmVersion::V1] {
            ctx.evals += 1;
            if cc::WasmVersion::from_str(&v.to_string()).ok() != Some(v) {
                ctx.violation("print-parse-round-trip", "WasmVersion", 2, json!({"type": "WasmVersion", "printed": v.to_string()}), json!({}));
            }
        }
        for b in ["", "V", "V2", "0", "1", "V00", " V0", "V0 "] {
            ctx.evals += 1;
            if cc::WasmVersion::from_str(b).is_ok() {
                ctx.violation("ill-formed-text-accepted", "WasmVersion", b.len(), json!({"type": "WasmVersion", "text": b}), json!({}));
            }
        }
        // (observation O13, outside the listed forms: the JSON object form divides by gcd(n, d))
        for (n, d) in [(0u64, 0u64), (0, 5), (5, 0), (4, 6)] {
            ctx.evals += 1;
            let js = format!("{{\"numerator\":{n},\"denominator\":{d}}}");
            match mc_core::catch(|| serde_json::from_str::<ExchangeRate>(&js).ok().map(|r| (r.numerator(), r.denominator()))) {
                Ok(r) => ctx.outcome(&format!("exchange rate JSON {js}: {r:?}"), 1),
                Err(p) => ctx.outcome(&format!("exchange rate JSON {js}: panic ({})", p.chars().take(60).collect::<String>()), 1),
            }
        }
        // exchange rates from decimal strings: value = numerator / denominator in lowest terms
        for (text, want) in [("1", Some((1u64, 1u64))), ("0.5", Some((1, 2))), ("2.50", Some((5, 2))), ("0.000001", Some((1, 1_000_000))), ("18446744073709551615", Some((u64::MAX, 1))), ("18446744073709551616", None), ("0", None), ("0.0", None), ("-1", None), ("", None), ("1/2", None), ("0.0000000000000000001", Some((1, 10_000_000_000_000_000_000))), ("0.00000000000000000001", None)] {
            ctx.evals += 1;
            let got = ExchangeRate::from_str(text).ok().map(|r| (r.numerator(), r.denominator()));
            if got != want {
                ctx.violation("exchange-rate-text-differs", "ExchangeRate", text.len(), json!({"type": "ExchangeRate", "text": text}), json!({"parsed": format!("{got:?}"), "expected": format!("{want:?}")}));
            }
        }
    });
    // ---- checked arithmetic ------------------------------------------------------------------
    t.add(|ctx: &mut Ctx| {
        let vals = [0u64, 1, 2, u64::MAX / 2, u64::MAX / 2 + 1, u64::MAX - 1, u64::MAX];
        for a in vals {
            for b in vals {
                ctx.evals += 1;
                let (aa, bb) = (Amount::from_micro_ccd(a), Amount::from_micro_ccd(b));
                let sum = a as u128 + b as u128;
                let w = json!({"type": "arithmetic", "a": a.to_string(), "b": b.to_string()});
                if aa.checked_add(bb).map(|x| x.micro_ccd()) != u64::try_from(sum).ok() {
                    ctx.violation("checked-arithmetic-differs", "Amount::checked_add", 16, w.clone(), json!({}));
                }
                if aa.checked_sub(bb).map(|x| x.micro_ccd()) != a.checked_sub(b) {
                    ctx.violation("checked-arithmetic-differs", "Amount::checked_sub", 16, w.clone(), json!({}));
                }
                let (da, db) = (Duration::from_millis(a), Duration::from_millis(b));
                if da.checked_add(db).map(|x| x.millis()) != u64::try_from(sum).ok() || da.checked_sub(db).map(|x| x.millis()) != a.checked_sub(b) {
                    ctx.violation("checked-arithmetic-differs", "Duration::checked_add/sub", 16, w.clone(), json!({}));
                }
                let ts = Timestamp::from_timestamp_millis(a);
                if ts.checked_add(db).map(|x| x.timestamp_millis()) != u64::try_from(sum).ok() || ts.checked_sub(db).map(|x| x.timestamp_millis()) != a.checked_sub(b) {
                    ctx.violation("checked-arithmetic-differs", "Timestamp::checked_add/sub", 16, w.clone(), json!({}));
                }
                if b != 0 {
                    let (q, r) = aa.quotient_remainder(b);
                    if q.micro_ccd() != a / b || r.micro_ccd() != a % b {
                        ctx.violation("checked-arithmetic-differs", "Amount::quotient_remainder", 16, w.clone(), json!({}));
                    }
                }
                // balances: staked and locked may not exceed the total
                let want = b <= a;
                if AccountBalance::new(aa, bb, Amount::from_micro_ccd(0)).is_some() != want || AccountBalance::new(aa, Amount::from_micro_ccd(0), bb).is_some() != want {
                    ctx.violation("checked-arithmetic-differs", "AccountBalance::new", 16, w, json!({}));
                }
                ctx.traces += 1;
            }
        }
        // exchange rate conversions round down, in 128-bit arithmetic
        let rates = [(1u64, 1u64), (1, 50_000), (u64::MAX, 1), (7, 3), (1, u64::MAX)];
        for (n1, d1) in rates {
            for (n2, d2) in rates {
                let er = ExchangeRates { euro_per_energy: ExchangeRate::new_unchecked(n1, d1), micro_ccd_per_euro: ExchangeRate::new_unchecked(n2, d2) };
                for x in [0u64, 1, 100, 1_000_000, u32::MAX as u64] {
                    ctx.evals += 1;
                    let want = (n2 as u128 * x as u128) / (d2 as u128 * 100);
                    if let Ok(w64) = u64::try_from(want) {
                        let got = mc_core::catch(|| er.convert_euro_cent_to_amount(x).micro_ccd());
                        if got != Ok(w64) {
                            ctx.violation("checked-arithmetic-differs", "ExchangeRates::convert_euro_cent_to_amount", 16, json!({"type": "arithmetic", "rate": [n2.to_string(), d2.to_string()], "euro_cent": x}), json!({"got": format!("{got:?}"), "want": w64}));
                        }
                    }
                    ctx.traces += 1;
                }
            }
        }
    });
}
