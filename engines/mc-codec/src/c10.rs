//! C10: schema-directed JSON <-> binary conversion is faithful and total; schemas round-trip.
//!
//! Group `types`: every schema `Type` of constructor depth <= 1 (thorough 2) over the full
//! constructor alphabet; per type a set of conforming JSON values (boundary values per
//! constructor) and of non-conforming ones. Conforming: `serial_value` gives exactly the
//! bytes of an independently written encoder of the documented contract-side layout,
//! `to_json` of those bytes gives the normalised JSON, and that converts back to the same
//! bytes. Non-conforming: rejected. Then hostile bytes under every type (all byte strings
//! of length <= 2 and the byte neighbourhood of the valid encodings).
//! Group `schemas`: the binary form of types, functions, contracts and modules of every
//! schema version, with and without version prefix and through base64.

use crate::harness::*;
use concordium_contracts_common::{
    self as cc,
    schema::{ContractV0, ContractV1, ContractV2, ContractV3, Fields, FunctionV1, FunctionV2, ModuleV0, ModuleV1, ModuleV2, ModuleV3, SizeLength, Type, VersionedModuleSchema},
    Cursor, Deserial, Serial,
};
use num_bigint::{BigInt, BigUint};
use serde_json::{json, Value as J};
use std::collections::BTreeMap;

pub const GROUPS: [&str; 2] = ["types", "schemas"];

pub fn run_group(tasks: &mut Tasks, group: &str) {
    match group {
        "types" => types_group(tasks),
        "schemas" => schemas_group(tasks),
        g => mc_core::machinery_error(&format!("unknown C10 group {g}")),
    }
}

// ---------------------------------------------------------------------------------------
// the type alphabet
// ---------------------------------------------------------------------------------------

const SLS: [SizeLength; 4] = [SizeLength::U8, SizeLength::U16, SizeLength::U32, SizeLength::U64];

fn leaf_types() -> Vec<Type> {
    let mut v = vec![Type::Unit, Type::Bool, Type::U8, Type::U16, Type::U32, Type::U64, Type::U128, Type::I8, Type::I16, Type::I32, Type::I64, Type::I128, Type::Amount, Type::AccountAddress, Type::ContractAddress, Type::Timestamp, Type::Duration];
    for sl in SLS {
        v.push(Type::String(sl));
        v.push(Type::ByteList(sl));
    }
    v.push(Type::ContractName(SizeLength::U16));
    v.push(Type::ContractName(SizeLength::U8));
    v.push(Type::ReceiveName(SizeLength::U16));
    v.push(Type::ReceiveName(SizeLength::U32));
    for c in [1u32, 2, 10, 37] {
        v.push(Type::ULeb128(c));
        v.push(Type::ILeb128(c));
    }
    for n in [0u32, 1, 2, 32] {
        v.push(Type::ByteArray(n));
    }
    v
}

fn zero_width(t: &Type) -> bool {
    match t {
        Type::Unit | Type::ByteArray(0) | Type::Array(0, _) => true,
        Type::Struct(Fields::None) => true,
        Type::Struct(Fields::Unnamed(v)) => v.iter().all(zero_width),
        Type::Struct(Fields::Named(v)) => v.iter().all(|(_, t)| zero_width(t)),
        Type::Pair(a, b) => zero_width(a) && zero_width(b),
        Type::Array(_, t) => zero_width(t),
        _ => false,
    }
}

/// One constructor layer over the given children (`few` = a handful of children used for
/// the binary constructors).
fn compose(children: &[Type], few: &[Type]) -> Vec<Type> {
    let mut out = vec![];
    for a in few {
        for b in few {
            out.push(Type::Pair(Box::new(a.clone()), Box::new(b.clone())));
        }
    }
    for a in children {
        for sl in SLS {
            // collections of zero-width elements only with short length prefixes (observation O2)
            if zero_width(a) && matches!(sl, SizeLength::U32 | SizeLength::U64) {
                continue;
            }
            out.push(Type::List(sl, Box::new(a.clone())));
        }
        out.push(Type::Set(SizeLength::U8, Box::new(a.clone())));
        for n in [0u32, 1, 2] {
            out.push(Type::Array(n, Box::new(a.clone())));
        }
        out.push(Type::Struct(Fields::Unnamed(vec![a.clone()])));
        out.push(Type::Struct(Fields::Named(vec![("f".into(), a.clone()), ("second field".into(), Type::U8)])));
        out.push(Type::Enum(vec![("A".into(), Fields::None), ("B".into(), Fields::Unnamed(vec![a.clone()]))]));
        let mut tagged = BTreeMap::new();
        tagged.insert(0u8, ("Zero".to_string(), Fields::Unnamed(vec![a.clone()])));
        tagged.insert(255u8, ("Last".to_string(), Fields::Named(vec![("x".into(), a.clone())])));
        out.push(Type::TaggedEnum(tagged));
    }
    for a in few {
        for b in few {
            if !zero_width(a) || !zero_width(b) {
                out.push(Type::Map(SizeLength::U16, Box::new(a.clone()), Box::new(b.clone())));
            }
        }
    }
    out.push(Type::Struct(Fields::None));
    out.push(Type::Struct(Fields::Unnamed(vec![])));
    out.push(Type::Struct(Fields::Named(vec![])));
    out.push(Type::Enum(vec![("Only".into(), Fields::None)]));
    // 255 / 256 variants: one-byte tag; 257: the tag becomes two bytes (the last variant carries a payload)
    for n in [255usize, 256, 257] {
        out.push(Type::Enum((0..n).map(|i| (format!("V{i}"), if i == n - 1 { Fields::Unnamed(vec![Type::U8]) } else { Fields::None })).collect()));
    }
    out
}

// ---------------------------------------------------------------------------------------
// conforming values, normalisation, independent encoder
// ---------------------------------------------------------------------------------------

fn addr_text(b: u8) -> String { cc::AccountAddress([b; 32]).to_string() }

/// (input JSON, normalised JSON `to_json` must return)
fn values(t: &Type, budget: usize) -> Vec<(J, J)> {
    let same = |v: Vec<J>| v.into_iter().map(|j| (j.clone(), j)).collect::<Vec<_>>();
    let ints = |lo: i128, hi: u128| -> Vec<J> {
        let mut v = vec![json!(0), json!(1)];
        if lo < 0 {
            v.push(json!(-1));
            v.push(json!(lo as i64));
        }
        v.push(json!(hi as u64));
        if hi > 1 {
            v.push(json!((hi - 1) as u64));
        }
        v
    };
    let mut out = match t {
        Type::Unit => same(vec![J::Null]),
        Type::Bool => same(vec![json!(true), json!(false)]),
        Type::U8 => same(ints(0, u8::MAX as u128)),
        Type::U16 => same(ints(0, u16::MAX as u128)),
        Type::U32 => same(ints(0, u32::MAX as u128)),
        Type::U64 => same(ints(0, u64::MAX as u128)),
        Type::I8 => same(ints(i8::MIN as i128, i8::MAX as u128)),
        Type::I16 => same(ints(i16::MIN as i128, i16::MAX as u128)),
        Type::I32 => same(ints(i32::MIN as i128, i32::MAX as u128)),
        Type::I64 => same(ints(i64::MIN as i128, i64::MAX as u128)),
        Type::U128 => same(vec![json!("0"), json!("1"), json!(u128::MAX.to_string()), json!((u64::MAX as u128 + 1).to_string())]),
        Type::I128 => same(vec![json!("0"), json!("-1"), json!(i128::MAX.to_string()), json!(i128::MIN.to_string())]),
        Type::Amount => same(vec![json!("0"), json!("1"), json!(u64::MAX.to_string())]),
        Type::AccountAddress => same(vec![json!(addr_text(0)), json!(addr_text(255))]),
        Type::ContractAddress => vec![
            (json!({"index": 0, "subindex": 0}), json!({"index": 0, "subindex": 0})),
            (json!({"index": u64::MAX, "subindex": 1}), json!({"index": u64::MAX, "subindex": 1})),
            // documented normalisation: a missing subindex is 0
            (json!({"index": 7}), json!({"index": 7, "subindex": 0})),
        ],
        Type::Timestamp => vec![
            (json!("1970-01-01T00:00:00+00:00"), json!("1970-01-01T00:00:00+00:00")),
            (json!("2023-08-28T23:12:15.500+00:00"), json!("2023-08-28T23:12:15.500+00:00")),
            // documented normalisations: numeric milliseconds and other offsets print as RFC 3339 UTC
            (json!("1000"), json!("1970-01-01T00:00:01+00:00")),
            (json!("1970-01-01T01:00:00+01:00"), json!("1970-01-01T00:00:00+00:00")),
            (json!(u64::MAX.to_string()), json!(u64::MAX.to_string())),
        ],
        Type::Duration => vec![
            (json!("0d 0h 0m 0s 0ms"), json!("0d 0h 0m 0s 0ms")),
            (json!("1d 2h 3m 4s 5ms"), json!("1d 2h 3m 4s 5ms")),
            // documented normalisation: canonical unit order and carry
            (json!("90s"), json!("0d 0h 1m 30s 0ms")),
            (json!("5ms 1d"), json!("1d 0h 0m 0s 5ms")),
            (json!(format!("{}ms", u64::MAX)), json!("213503982334d 14h 25m 51s 615ms")),
        ],
        Type::String(sl) => {
            let mut v = vec![json!(""), json!("a"), json!("é€")];
            if !matches!(sl, SizeLength::U8) {
                v.push(json!("x".repeat(256)));
            } else {
                v.push(json!("x".repeat(255)));
            }
            same(v)
        }
        Type::ByteList(sl) => {
            let mut v = vec![(json!(""), json!("")), (json!("00"), json!("00")), (json!("01ff"), json!("01ff")), (json!("ABCD"), json!("abcd"))];
            let n = if matches!(sl, SizeLength::U8) { 255 } else { 256 };
            v.push((json!("7e".repeat(n)), json!("7e".repeat(n))));
            v
        }
        Type::ByteArray(n) => vec![(json!("Fe".repeat(*n as usize)), json!("fe".repeat(*n as usize))), (json!("00".repeat(*n as usize)), json!("00".repeat(*n as usize)))],
        Type::ContractName(_) => same(vec![json!({"contract": ""}), json!({"contract": "a"}), json!({"contract": "c".repeat(95)})]),
        Type::ReceiveName(_) => same(vec![json!({"contract": "", "func": ""}), json!({"contract": "a", "func": "b"}), json!({"contract": "a", "func": "b.c"}), json!({"contract": "c".repeat(50), "func": "d".repeat(49)})]),
        Type::ULeb128(c) => {
            // c bytes carry 7c bits
            let max = (BigUint::from(1u8) << (7 * *c as usize)) - 1u8;
            let mut v = vec![json!("0"), json!("1"), json!("127"), json!(max.to_string())];
            if *c >= 2 {
                v.push(json!("128"));
                v.push(json!("16383"));
            }
            same(v)
        }
        Type::ILeb128(c) => {
            let max: BigInt = (BigInt::from(1) << (7 * *c as usize - 1)) - BigInt::from(1);
            let min: BigInt = -(BigInt::from(1) << (7 * *c as usize - 1));
            let mut v = vec![json!("0"), json!("1"), json!("-1"), json!("63"), json!("-64"), json!(max.to_string()), json!(min.to_string())];
            if *c >= 2 {
                v.push(json!("64"));
                v.push(json!("-65"));
            }
            same(v)
        }
        Type::Pair(a, b) => {
            let (va, vb) = (values(a, 3), values(b, 3));
            let mut v = vec![];
            for (x, nx) in &va {
                for (y, ny) in &vb {
                    v.push((json!([x, y]), json!([nx, ny])));
                }
            }
            v
        }
        Type::List(_, a) | Type::Set(_, a) => {
            let va = values(a, 3);
            let mut v = vec![(json!([]), json!([]))];
            v.push((json!([va[0].0]), json!([va[0].1])));
            if va.len() >= 2 {
                v.push((J::Array(va.iter().map(|p| p.0.clone()).collect()), J::Array(va.iter().map(|p| p.1.clone()).collect())));
                // not sorted, with a repetition: lists are lists, and the JSON side of sets is not checked
                v.push((json!([va[1].0, va[0].0, va[1].0]), json!([va[1].1, va[0].1, va[1].1])));
            }
            v
        }
        Type::Map(_, a, b) => {
            let (va, vb) = (values(a, 2), values(b, 2));
            let mut v = vec![(json!([]), json!([]))];
            v.push((json!([[va[0].0, vb[0].0]]), json!([[va[0].1, vb[0].1]])));
            if va.len() >= 2 {
                v.push((json!([[va[1].0, vb[0].0], [va[0].0, vb[vb.len() - 1].0]]), json!([[va[1].1, vb[0].1], [va[0].1, vb[vb.len() - 1].1]])));
            }
            v
        }
        Type::Array(n, a) => {
            let va = values(a, 2);
            (0..va.len().min(2)).map(|k| (J::Array((0..*n).map(|i| va[(k + i as usize) % va.len()].0.clone()).collect()), J::Array((0..*n).map(|i| va[(k + i as usize) % va.len()].1.clone()).collect()))).collect()
        }
        Type::Struct(f) => fields_values(f),
        Type::Enum(vs) => {
            let mut v = vec![];
            for (name, f) in [vs.first().unwrap(), vs.last().unwrap()] {
                for (x, nx) in fields_values(f).into_iter().take(2) {
                    v.push((json!({ name: x }), json!({ name: nx })));
                }
            }
            v
        }
        Type::TaggedEnum(vs) => {
            let mut v = vec![];
            for (name, f) in vs.values() {
                for (x, nx) in fields_values(f).into_iter().take(2) {
                    v.push((json!({ name: x }), json!({ name: nx })));
                }
            }
            v
        }
    };
    out.truncate(budget.max(1));
    out
}

fn fields_values(f: &Fields) -> Vec<(J, J)> {
    match f {
        Fields::None => vec![(json!([]), json!([]))],
        Fields::Unnamed(ts) => {
            let vs: Vec<Vec<(J, J)>> = ts.iter().map(|t| values(t, 3)).collect();
            let n = vs.iter().map(|v| v.len()).max().unwrap_or(1);
            (0..n).map(|k| (J::Array(vs.iter().map(|v| v[k % v.len()].0.clone()).collect()), J::Array(vs.iter().map(|v| v[k % v.len()].1.clone()).collect()))).collect()
        }
        Fields::Named(ts) => {
            let vs: Vec<Vec<(J, J)>> = ts.iter().map(|(_, t)| values(t, 3)).collect();
            let n = vs.iter().map(|v| v.len()).max().unwrap_or(1);
            (0..n)
                .map(|k| {
                    let mut a = serde_json::Map::new();
                    let mut b = serde_json::Map::new();
                    for ((name, _), v) in ts.iter().zip(&vs) {
                        a.insert(name.clone(), v[k % v.len()].0.clone());
                        b.insert(name.clone(), v[k % v.len()].1.clone());
                    }
                    (J::Object(a), J::Object(b))
                })
                .collect()
        }
    }
}

/// JSON values the type must reject.
fn bad_values(t: &Type) -> Vec<J> {
    let wrong_kind = vec![json!({"x": 1}), json!([1, 2, 3]), J::Null];
    let mut v = match t {
        // positions that carry no information: the documented forms are null / []
        Type::Unit => return vec![json!("x")],
        Type::Bool => vec![json!(0), json!("true")],
        Type::U8 => vec![json!(256), json!(-1), json!("1"), json!(1.5)],
        Type::U16 => vec![json!(65536), json!(-1), json!(1.5)],
        Type::U32 => vec![json!(4294967296u64), json!(-1)],
        Type::U64 => vec![json!(-1), json!(1.5), json!("1")],
        Type::I8 => vec![json!(128), json!(-129), json!(0.5)],
        Type::I16 => vec![json!(32768), json!(-32769)],
        Type::I32 => vec![json!(2147483648u64), json!(-2147483649i64)],
        Type::I64 => vec![json!(9223372036854775808u64), json!("1")],
        Type::U128 => vec![json!("340282366920938463463374607431768211456"), json!("-1"), json!(1), json!("")],
        Type::I128 => vec![json!("170141183460469231731687303715884105728"), json!(1), json!("a")],
        Type::Amount => vec![json!("18446744073709551616"), json!("-1"), json!(1), json!("1.5")],
        Type::AccountAddress => vec![json!(""), json!("3XSLuJcXg6xEua6iBPnWacc3iWh93yEDMCqX8FbE3RDSbEnT9Q"), json!(1)],
        Type::ContractAddress => vec![json!({"subindex": 0}), json!({"index": 1, "subindex": 0, "x": 0}), json!({"index": "1"}), json!({"index": -1})],
        Type::Timestamp => vec![json!("not a date"), json!(1000), json!("1969-12-31T23:59:59Z"), json!("18446744073709551616")],
        Type::Duration => vec![json!("1"), json!("1x"), json!(1), json!("d")],
        Type::String(SizeLength::U8) => vec![json!("x".repeat(256)), json!(1)],
        Type::String(_) => vec![json!(1)],
        Type::ByteList(SizeLength::U8) => vec![json!("0"), json!("zz"), json!("00".repeat(256))],
        Type::ByteList(_) => vec![json!("0"), json!("zz"), json!(0)],
        Type::ByteArray(n) => vec![json!("00".repeat(*n as usize + 1)), json!("0"), json!(0)],
        Type::ContractName(_) => vec![json!({}), json!({"contract": "a", "x": "b"}), json!({"contract": 1}), json!("init_a")],
        Type::ReceiveName(_) => vec![json!({"contract": "a"}), json!({"func": "b"}), json!({"contract": "a", "func": "b", "x": 1}), json!({"contract": 1, "func": "b"})],
        Type::ULeb128(c) => vec![json!((BigUint::from(1u8) << (7 * *c as usize)).to_string()), json!("-1"), json!(1), json!("")],
        Type::ILeb128(c) => vec![json!((BigInt::from(1) << (7 * *c as usize - 1)).to_string()), json!((-(BigInt::from(1) << (7 * *c as usize - 1)) - BigInt::from(1)).to_string()), json!(0)],
        Type::Pair(..) => vec![json!([]), json!([1]), json!([1, 2, 3])],
        Type::List(..) | Type::Set(..) | Type::Map(..) => vec![json!({"a": 1}), json!("x")],
        Type::Array(n, a) => {
            let va = values(a, 1);
            vec![J::Array((0..*n + 1).map(|_| va[0].0.clone()).collect()), json!("x")]
        }
        Type::Struct(Fields::Named(fs)) if !fs.is_empty() => vec![json!({}), json!([])],
        Type::Struct(_) => vec![json!("x")],
        Type::Enum(vs) if vs.len() == 1 => vec![json!({}), json!({"NoSuchVariant": []}), json!("A"), json!({"A": [], "B": []}), json!({"Only": "x"})],
        Type::Enum(_) | Type::TaggedEnum(_) => vec![json!({}), json!({"NoSuchVariant": []}), json!("A"), json!({"A": [], "B": []})],
    };
    if !matches!(t, Type::Struct(_) | Type::Enum(_) | Type::TaggedEnum(_) | Type::ContractAddress | Type::ContractName(_) | Type::ReceiveName(_) | Type::List(..) | Type::Set(..) | Type::Map(..) | Type::Array(..) | Type::Pair(..)) {
        v.extend(wrong_kind);
    }
    v
}

fn put_len(n: usize, sl: SizeLength, out: &mut Vec<u8>) {
    match sl {
        SizeLength::U8 => out.push(n as u8),
        SizeLength::U16 => out.extend_from_slice(&(n as u16).to_le_bytes()),
        SizeLength::U32 => out.extend_from_slice(&(n as u32).to_le_bytes()),
        SizeLength::U64 => out.extend_from_slice(&(n as u64).to_le_bytes()),
    }
}

/// Independent encoder of the documented contract-side layout (little endian integers,
/// length prefixes of the declared width, one- or two-byte variant tags, LEB128), applied
/// to the NORMALISED JSON.
fn ref_encode(t: &Type, j: &J, out: &mut Vec<u8>) {
    match t {
        Type::Unit => {}
        Type::Bool => out.push(j.as_bool().unwrap() as u8),
        Type::U8 => out.push(j.as_u64().unwrap() as u8),
        Type::U16 => out.extend_from_slice(&(j.as_u64().unwrap() as u16).to_le_bytes()),
        Type::U32 => out.extend_from_slice(&(j.as_u64().unwrap() as u32).to_le_bytes()),
        Type::U64 => out.extend_from_slice(&j.as_u64().unwrap().to_le_bytes()),
        Type::I8 => out.push(j.as_i64().unwrap() as i8 as u8),
        Type::I16 => out.extend_from_slice(&(j.as_i64().unwrap() as i16).to_le_bytes()),
        Type::I32 => out.extend_from_slice(&(j.as_i64().unwrap() as i32).to_le_bytes()),
        Type::I64 => out.extend_from_slice(&j.as_i64().unwrap().to_le_bytes()),
        Type::U128 => out.extend_from_slice(&j.as_str().unwrap().parse::<u128>().unwrap().to_le_bytes()),
        Type::I128 => out.extend_from_slice(&j.as_str().unwrap().parse::<i128>().unwrap().to_le_bytes()),
        Type::Amount => out.extend_from_slice(&j.as_str().unwrap().parse::<u64>().unwrap().to_le_bytes()),
        Type::AccountAddress => out.extend_from_slice(&cc::to_bytes(&j.as_str().unwrap().parse::<cc::AccountAddress>().unwrap())),
        Type::ContractAddress => {
            out.extend_from_slice(&j["index"].as_u64().unwrap().to_le_bytes());
            out.extend_from_slice(&j["subindex"].as_u64().unwrap().to_le_bytes());
        }
        Type::Timestamp => {
            let s = j.as_str().unwrap();
            let ms: u64 = s.parse::<u64>().unwrap_or_else(|_| chrono::DateTime::parse_from_rfc3339(s).unwrap().timestamp_millis() as u64);
            out.extend_from_slice(&ms.to_le_bytes());
        }
        Type::Duration => {
            // normalised form "Xd Yh Zm Ws Vms"
            let mut ms: u128 = 0;
            for part in j.as_str().unwrap().split(' ') {
                let digits: String = part.chars().take_while(|c| c.is_ascii_digit()).collect();
                let mult: u128 = match &part[digits.len()..] {
                    "d" => 86_400_000,
                    "h" => 3_600_000,
                    "m" => 60_000,
                    "s" => 1000,
                    _ => 1,
                };
                ms += digits.parse::<u128>().unwrap() * mult;
            }
            out.extend_from_slice(&(ms as u64).to_le_bytes());
        }
        Type::String(sl) => {
            let s = j.as_str().unwrap();
            put_len(s.len(), *sl, out);
            out.extend_from_slice(s.as_bytes());
        }
        Type::ByteList(sl) => {
            let b = hex::decode(j.as_str().unwrap()).unwrap();
            put_len(b.len(), *sl, out);
            out.extend_from_slice(&b);
        }
        Type::ByteArray(_) => out.extend_from_slice(&hex::decode(j.as_str().unwrap()).unwrap()),
        Type::ContractName(sl) => {
            let s = format!("init_{}", j["contract"].as_str().unwrap());
            put_len(s.len(), *sl, out);
            out.extend_from_slice(s.as_bytes());
        }
        Type::ReceiveName(sl) => {
            let s = format!("{}.{}", j["contract"].as_str().unwrap(), j["func"].as_str().unwrap());
            put_len(s.len(), *sl, out);
            out.extend_from_slice(s.as_bytes());
        }
        Type::ULeb128(_) => {
            let mut n: BigUint = j.as_str().unwrap().parse().unwrap();
            loop {
                let low = (&n & BigUint::from(0x7fu8)).to_u32_digits().first().copied().unwrap_or(0) as u8;
                n >>= 7;
                if n == BigUint::from(0u8) {
                    out.push(low);
                    break;
                }
                out.push(low | 0x80);
            }
        }
        Type::ILeb128(_) => {
            let mut n: BigInt = j.as_str().unwrap().parse().unwrap();
            loop {
                let low = (&n & BigInt::from(0x7f)).to_u32_digits().1.first().copied().unwrap_or(0) as u8;
                n >>= 7;
                let done = (n == BigInt::from(0) && low & 0x40 == 0) || (n == BigInt::from(-1) && low & 0x40 != 0);
                if done {
                    out.push(low);
                    break;
                }
                out.push(low | 0x80);
            }
        }
        Type::Pair(a, b) => {
            ref_encode(a, &j[0], out);
            ref_encode(b, &j[1], out);
        }
        Type::List(sl, a) | Type::Set(sl, a) => {
            let xs = j.as_array().unwrap();
            put_len(xs.len(), *sl, out);
            for x in xs {
                ref_encode(a, x, out);
            }
        }
        Type::Map(sl, a, b) => {
            let xs = j.as_array().unwrap();
            put_len(xs.len(), *sl, out);
            for x in xs {
                ref_encode(a, &x[0], out);
                ref_encode(b, &x[1], out);
            }
        }
        Type::Array(_, a) => {
            for x in j.as_array().unwrap() {
                ref_encode(a, x, out);
            }
        }
        Type::Struct(f) => ref_fields(f, j, out),
        Type::Enum(vs) => {
            let (name, inner) = j.as_object().unwrap().iter().next().unwrap();
            let idx = vs.iter().position(|(n, _)| n == name).unwrap();
            if vs.len() <= 256 {
                out.push(idx as u8)
            } else {
                out.extend_from_slice(&(idx as u16).to_le_bytes())
            }
            ref_fields(&vs[idx].1, inner, out);
        }
        Type::TaggedEnum(vs) => {
            let (name, inner) = j.as_object().unwrap().iter().next().unwrap();
            let (tag, (_, f)) = vs.iter().find(|(_, (n, _))| n == name).unwrap();
            out.push(*tag);
            ref_fields(f, inner, out);
        }
    }
}

fn ref_fields(f: &Fields, j: &J, out: &mut Vec<u8>) {
    match f {
        Fields::None => {}
        Fields::Unnamed(ts) => {
            for (t, x) in ts.iter().zip(j.as_array().unwrap()) {
                ref_encode(t, x, out);
            }
        }
        Fields::Named(ts) => {
            for (name, t) in ts {
                ref_encode(t, &j[name], out);
            }
        }
    }
}

fn has_leb(t: &Type) -> bool {
    match t {
        Type::ULeb128(_) | Type::ILeb128(_) => true,
        Type::Pair(a, b) | Type::Map(_, a, b) => has_leb(a) || has_leb(b),
        Type::List(_, a) | Type::Set(_, a) | Type::Array(_, a) => has_leb(a),
        Type::Struct(f) => fields_leb(f),
        Type::Enum(vs) => vs.iter().any(|(_, f)| fields_leb(f)),
        Type::TaggedEnum(vs) => vs.values().any(|(_, f)| fields_leb(f)),
        _ => false,
    }
}

fn fields_leb(f: &Fields) -> bool {
    match f {
        Fields::None => false,
        Fields::Unnamed(ts) => ts.iter().any(has_leb),
        Fields::Named(ts) => ts.iter().any(|(_, t)| has_leb(t)),
    }
}

fn tname(t: &Type) -> String { format!("{t:?}").chars().take(160).collect() }

fn check_type(ctx: &mut Ctx, t: &Type, hostile: bool) {
    let name = tname(t);
    let vals = values(t, 8);
    let mut normalised = vec![];
    for (j, nj) in &vals {
        ctx.evals += 1;
        let w = || json!({"type": name, "json": j});
        let bytes = match mc_core::catch(|| t.serial_value(j)) {
            Ok(Ok(b)) => b,
            Ok(Err(e)) => {
                ctx.violation("conforming-json-rejected", &name, j.to_string().len(), w(), json!({"error": format!("{e}").chars().take(200).collect::<String>()}));
                continue;
            }
            Err(p) => {
                ctx.violation("converter-panicked", &name, j.to_string().len(), w(), json!({"panic": p}));
                continue;
            }
        };
        let mut want = vec![];
        ref_encode(t, nj, &mut want);
        if bytes != want {
            ctx.violation("bytes-differ-from-contract-side-encoding", &name, bytes.len(), w(), json!({"got": hex::encode(&bytes), "reference": hex::encode(&want)}));
        }
        let mut cur = Cursor::new(&bytes[..]);
        match mc_core::catch(|| t.to_json(&mut cur).ok()) {
            Ok(Some(back)) => {
                ctx.traces += 1;
                if &back != nj || cur.offset != bytes.len() {
                    ctx.violation("json-round-trip-differs", &name, bytes.len(), w(), json!({"back": back, "expected": nj, "consumed": cur.offset, "length": bytes.len()}));
                }
                if t.serial_value(&back).ok().as_ref() != Some(&bytes) {
                    ctx.violation("normalised-json-converts-to-other-bytes", &name, bytes.len(), w(), json!({"back": back}));
                }
                ctx.outcome("conforming value: round trip ok", 1);
                normalised.push(back);
            }
            Ok(None) => ctx.violation("own-encoding-not-convertible-back", &name, bytes.len(), w(), json!({"bytes": hex::encode(&bytes)})),
            Err(p) => ctx.violation("converter-panicked", &name, bytes.len(), w(), json!({"panic": p})),
        }
    }
    for j in bad_values(t) {
        ctx.evals += 1;
        match mc_core::catch(|| t.serial_value(&j).ok()) {
            Ok(None) => ctx.outcome("non-conforming value: rejected", 1),
            Ok(Some(b)) => ctx.violation("non-conforming-json-accepted", &name, j.to_string().len(), json!({"type": name, "json": j}), json!({"bytes": hex::encode(b)})),
            Err(p) => ctx.violation("converter-panicked", &name, j.to_string().len(), json!({"type": name, "json": j}), json!({"panic": p})),
        }
    }
    if hostile && !normalised.is_empty() {
        normalised.dedup();
        let enc = |v: &J| t.serial_value(v).expect("normalised JSON converts");
        let dec = |b: &[u8]| {
            let mut c = Cursor::new(b);
            t.to_json(&mut c).ok().map(|v| (v, c.offset))
        };
        let eq = |a: &J, b: &J| a == b;
        let show = |v: &J| v.to_string();
        // LEB128 admits padded encodings of one number: only re-encoding stability there
        let c = Codec { name: &name, enc: &enc, dec: &dec, eq: &eq, show: &show, canonical: !has_leb(t), alloc_const: 8 << 20, alloc_factor: 512, short_inputs: true, cost: 2 };
        let keep: Vec<J> = normalised.into_iter().take(3).collect();
        sweep(ctx, &c, &keep);
    }
}

fn types_group(t: &mut Tasks) {
    let quick = t.tier == mc_core::Tier::Quick;
    let leaves = leaf_types();
    let few: Vec<Type> = vec![Type::U8, Type::Bool, Type::String(SizeLength::U8), Type::Unit, Type::ULeb128(2), Type::ContractAddress];
    let depth1 = compose(&leaves, &few);
    let mut all: Vec<(Type, bool)> = vec![];
    for ty in leaves.iter().chain(depth1.iter()) {
        all.push((ty.clone(), true));
    }
    // depth 2: one more layer over a spread of depth-1 types (hostile sweep in the thorough tier)
    let spread: Vec<Type> = depth1.iter().step_by(if quick { 23 } else { 5 }).cloned().collect();
    let few2: Vec<Type> = depth1.iter().step_by(61).cloned().collect();
    for ty in compose(&spread, &few2) {
        all.push((ty, !quick));
    }
    let n = all.len();
    t.add(move |ctx: &mut Ctx| {
        ctx.extra.insert("schema_types".into(), json!(n));
    });
    for chunk in all.chunks(all.len().div_ceil(64)).map(|c| c.to_vec()) {
        t.add(move |ctx: &mut Ctx| {
            for (ty, hostile) in &chunk {
                check_type(ctx, ty, *hostile);
            }
        });
    }
    // values around the pre-allocation bound (4096) of the bytes -> JSON direction, alone and
    // followed by further data: strings, byte lists, lists, sets and maps with 4095 .. 8193 items
    t.add(|ctx: &mut Ctx| {
        for n in [4095usize, 4096, 4097, 4160, 8193] {
            let text = "s".repeat(n);
            let hexs = "5a".repeat(n);
            let items: Vec<J> = (0..n).map(|i| json!(i % 251)).collect();
            let pairs: Vec<J> = (0..n).map(|i| json!([i, i % 7])).collect();
            let mut cases: Vec<(Type, J)> = vec![];
            for sl in [SizeLength::U16, SizeLength::U32] {
                cases.push((Type::String(sl), json!(text)));
                cases.push((Type::ByteList(sl), json!(hexs)));
                cases.push((Type::List(sl, Box::new(Type::U8)), J::Array(items.clone())));
                cases.push((Type::Map(sl, Box::new(Type::U16), Box::new(Type::U8)), J::Array(pairs.clone())));
            }
            cases.push((Type::Set(SizeLength::U16, Box::new(Type::U16)), J::Array((0..n).map(|i| json!(i)).collect())));
            for (inner, j) in cases {
                for wrap in 0..3 {
                    let (ty, val) = match wrap {
                        0 => (inner.clone(), j.clone()),
                        1 => (Type::Pair(Box::new(inner.clone()), Box::new(Type::U16)), json!([j, 513])),
                        _ => (Type::Struct(Fields::Named(vec![("a".into(), inner.clone()), ("b".into(), Type::String(SizeLength::U8))])), json!({"a": j, "b": "tail"})),
                    };
                    ctx.evals += 1;
                    let name = tname(&ty);
                    let w = json!({"type": name, "items": n, "followed_by_data": wrap != 0});
                    let res = mc_core::catch(|| {
                        let b = ty.serial_value(&val).map_err(|e| format!("JSON -> bytes: {e}"))?;
                        let mut want = vec![];
                        ref_encode(&ty, &val, &mut want);
                        if b != want {
                            return Err("bytes differ from the contract-side encoding".to_string());
                        }
                        let mut cur = Cursor::new(&b[..]);
                        let back = ty.to_json(&mut cur).map_err(|e| format!("bytes -> JSON: {e:?}"))?;
                        if back != val || cur.offset != b.len() {
                            return Err(format!("round trip differs (consumed {} of {})", cur.offset, b.len()));
                        }
                        Ok(())
                    });
                    ctx.traces += 1;
                    match res {
                        Ok(Ok(())) => ctx.outcome("long value: round trip ok", 1),
                        Ok(Err(e)) => ctx.violation("json-round-trip-differs", &name, n, w, json!({"error": e.chars().take(300).collect::<String>()})),
                        Err(p) => ctx.violation("converter-panicked", &name, n, w, json!({"panic": p})),
                    }
                }
            }
        }
    });
    // nesting up to the claimed depth 32
    t.add(|ctx: &mut Ctx| {
        for depth in [1usize, 8, 31, 32] {
            for kind in 0..3 {
                let mut ty = Type::U8;
                let mut j = json!(7);
                for _ in 0..depth {
                    match kind {
                        0 => {
                            ty = Type::List(SizeLength::U8, Box::new(ty));
                            j = json!([j]);
                        }
                        1 => {
                            ty = Type::Struct(Fields::Named(vec![("f".into(), ty)]));
                            j = json!({ "f": j });
                        }
                        _ => {
                            ty = Type::Enum(vec![("V".into(), Fields::Unnamed(vec![ty]))]);
                            j = json!({ "V": [j] });
                        }
                    }
                }
                ctx.evals += 1;
                let ok = mc_core::catch(|| {
                    let b = ty.serial_value(&j).ok()?;
                    let back = ty.to_json(&mut Cursor::new(&b[..])).ok()?;
                    Some(back == j)
                });
                if ok != Ok(Some(true)) {
                    ctx.violation("nested-type-round-trip", "nesting", depth, json!({"type": "nesting", "depth": depth, "kind": kind}), json!({"outcome": format!("{ok:?}")}));
                }
                ctx.traces += 1;
            }
        }
    });
}

// ---------------------------------------------------------------------------------------
// schemas
// ---------------------------------------------------------------------------------------

fn dec_cc<T: Deserial>(b: &[u8]) -> Option<(T, usize)> {
    let mut c = Cursor::new(b);
    T::deserial(&mut c).ok().map(|v| (v, c.offset))
}

fn sweep_schema<T: Serial + Deserial + std::fmt::Debug + PartialEq>(ctx: &mut Ctx, name: &str, values: Vec<T>) {
    let enc = |v: &T| cc::to_bytes(v);
    let dec = |b: &[u8]| dec_cc::<T>(b);
    let eq = |a: &T, b: &T| a == b;
    let show = |v: &T| format!("{v:?}");
    // maps inside schemas are written sorted but read without an order check
    let c = Codec { name, enc: &enc, dec: &dec, eq: &eq, show: &show, canonical: false, alloc_const: 8 << 20, alloc_factor: 512, short_inputs: true, cost: 2 };
    sweep(ctx, &c, &values);
    ctx.extra.insert(format!("values.{name}"), json!(values.len()));
}

fn schemas_group(t: &mut Tasks) {
    let quick = t.tier == mc_core::Tier::Quick;
    // every type of the alphabet through its own binary form
    let leaves = leaf_types();
    let few: Vec<Type> = vec![Type::U8, Type::String(SizeLength::U8), Type::Unit];
    let depth1 = compose(&leaves, &few);
    let mut tys: Vec<Type> = leaves.clone();
    tys.extend(depth1.iter().cloned());
    for chunk in tys.chunks(tys.len().div_ceil(32)).map(|c| c.to_vec()) {
        t.add(move |ctx: &mut Ctx| {
            for ty in &chunk {
                ctx.evals += 1;
                let b = cc::to_bytes(ty);
                match mc_core::catch(|| dec_cc::<Type>(&b)) {
                    Ok(Some((back, n))) if &back == ty && n == b.len() => ctx.outcome("schema type: binary round trip ok", 1),
                    other => ctx.violation("schema-type-round-trip", "schema::Type", b.len(), json!({"type": "schema::Type", "value": tname(ty)}), json!({"outcome": format!("{other:?}").chars().take(300).collect::<String>()})),
                }
                ctx.traces += 1;
            }
        });
    }
    let spread: Vec<Type> = tys.iter().step_by(if quick { 29 } else { 7 }).cloned().collect();
    for chunk in spread.chunks(4).map(|c| c.to_vec()) {
        t.add(move |ctx: &mut Ctx| sweep_schema::<Type>(ctx, "schema::Type", chunk));
    }
    // functions, contracts, modules of every version
    let ty_a = Type::Struct(Fields::Named(vec![("amount".into(), Type::Amount), ("to".into(), Type::AccountAddress)]));
    let ty_b = Type::Enum(vec![("Ok".into(), Fields::None), ("Err".into(), Fields::Unnamed(vec![Type::String(SizeLength::U32)]))]);
    let f1 = vec![FunctionV1::Parameter(ty_a.clone()), FunctionV1::ReturnValue(ty_b.clone()), FunctionV1::Both { parameter: ty_a.clone(), return_value: ty_b.clone() }];
    let mut f2 = vec![];
    for p in [None, Some(ty_a.clone())] {
        for r in [None, Some(ty_b.clone())] {
            for e in [None, Some(Type::U8)] {
                if p.is_some() || r.is_some() || e.is_some() {
                    f2.push(FunctionV2 { parameter: p.clone(), return_value: r.clone(), error: e.clone() });
                }
            }
        }
    }
    {
        let (f1, f2) = (f1.clone(), f2.clone());
        t.add(move |ctx: &mut Ctx| sweep_schema::<FunctionV1>(ctx, "FunctionV1", f1));
        t.add(move |ctx: &mut Ctx| sweep_schema::<FunctionV2>(ctx, "FunctionV2", f2));
    }
    let recv = |n: usize, f: &dyn Fn(usize) -> Type| -> BTreeMap<String, Type> { (0..n).map(|i| (format!("r{i}"), f(i))).collect() };
    let mut modules: Vec<VersionedModuleSchema> = vec![];
    for ncontracts in 0..=2usize {
        for nfun in 0..=2usize {
            let mut m0 = BTreeMap::new();
            let mut m1 = BTreeMap::new();
            let mut m2 = BTreeMap::new();
            let mut m3 = BTreeMap::new();
            for c in 0..ncontracts {
                let name = format!("contract{c}");
                m0.insert(name.clone(), ContractV0 { state: if c == 0 { Some(ty_b.clone()) } else { None }, init: if c == 1 { Some(ty_a.clone()) } else { None }, receive: recv(nfun, &|i| if i == 0 { ty_a.clone() } else { Type::Unit }) });
                m1.insert(name.clone(), ContractV1 { init: if c == 0 { Some(f1[0].clone()) } else { None }, receive: (0..nfun).map(|i| (format!("r{i}"), f1[i % f1.len()].clone())).collect() });
                m2.insert(name.clone(), ContractV2 { init: if c == 0 { Some(f2[0].clone()) } else { None }, receive: (0..nfun).map(|i| (format!("r{i}"), f2[(i + c) % f2.len()].clone())).collect() });
                m3.insert(name.clone(), ContractV3 { init: if c == 1 { Some(f2[6 % f2.len()].clone()) } else { None }, receive: (0..nfun).map(|i| (format!("r{i}"), f2[(i + 3) % f2.len()].clone())).collect(), event: if c == 0 { Some(ty_b.clone()) } else { None } });
            }
            modules.push(VersionedModuleSchema::V0(ModuleV0 { contracts: m0 }));
            modules.push(VersionedModuleSchema::V1(ModuleV1 { contracts: m1 }));
            modules.push(VersionedModuleSchema::V2(ModuleV2 { contracts: m2 }));
            modules.push(VersionedModuleSchema::V3(ModuleV3 { contracts: m3 }));
        }
    }
    t.add(move |ctx: &mut Ctx| {
        use base64::{engine::general_purpose, Engine};
        for m in &modules {
            ctx.evals += 1;
            let b = cc::to_bytes(m);
            let w = json!({"type": "VersionedModuleSchema", "schema": format!("{m:?}").chars().take(200).collect::<String>()});
            let same = |x: &VersionedModuleSchema| cc::to_bytes(x) == b;
            // with the version prefix
            match mc_core::catch(|| (dec_cc::<VersionedModuleSchema>(&b), VersionedModuleSchema::new(&b, &None).ok(), VersionedModuleSchema::from_base64_str(&general_purpose::STANDARD_NO_PAD.encode(&b)).ok())) {
                Ok((Some((x, n)), Some(y), Some(z))) if n == b.len() && same(&x) && same(&y) && same(&z) => {}
                other => ctx.violation("versioned-schema-round-trip", "VersionedModuleSchema", b.len(), w.clone(), json!({"outcome": format!("{other:?}").chars().take(300).collect::<String>()})),
            }
            // without the prefix, the version given separately
            let (version, bare): (u8, Vec<u8>) = match m {
                VersionedModuleSchema::V0(x) => (0, cc::to_bytes(x)),
                VersionedModuleSchema::V1(x) => (1, cc::to_bytes(x)),
                VersionedModuleSchema::V2(x) => (2, cc::to_bytes(x)),
                VersionedModuleSchema::V3(x) => (3, cc::to_bytes(x)),
            };
            match mc_core::catch(|| VersionedModuleSchema::new(&bare, &Some(version)).ok()) {
                Ok(Some(y)) if same(&y) => {}
                other => ctx.violation("unversioned-schema-round-trip", "VersionedModuleSchema", bare.len(), w.clone(), json!({"version": version, "outcome": format!("{other:?}").chars().take(300).collect::<String>()})),
            }
            // an unprefixed schema needs a version; an unknown version is refused
            if VersionedModuleSchema::new(&bare, &Some(9)).is_ok() && dec_cc::<VersionedModuleSchema>(&bare).is_none() {
                ctx.violation("unknown-schema-version-accepted", "VersionedModuleSchema", bare.len(), w.clone(), json!({}));
            }
            ctx.traces += 1;
            ctx.outcome("module schema: round trips ok", 1);
        }
        ctx.extra.insert("module_schemas".into(), json!(modules.len()));
        // byte neighbourhood of a few module schemas
        let pick: Vec<VersionedModuleSchema> = modules.iter().skip(20).step_by(5).take(if ctx.tier == mc_core::Tier::Quick { 3 } else { 8 }).cloned().collect();
        let enc = |v: &VersionedModuleSchema| cc::to_bytes(v);
        let dec = |b: &[u8]| dec_cc::<VersionedModuleSchema>(b);
        let eq = |a: &VersionedModuleSchema, b: &VersionedModuleSchema| cc::to_bytes(a) == cc::to_bytes(b);
        let show = |v: &VersionedModuleSchema| format!("{v:?}");
        let c = Codec { name: "VersionedModuleSchema", enc: &enc, dec: &dec, eq: &eq, show: &show, canonical: false, alloc_const: 8 << 20, alloc_factor: 512, short_inputs: true, cost: 4 };
        sweep(ctx, &c, &pick);
    });
}
