//! C05: fixtures that need the cryptographic pipelines (credentials, encrypted transfers,
//! identity provider / revoker infos, token payloads).
use crate::harness::*;
use concordium_base::{transactions::Payload, updates::UpdatePayload};

pub fn heavy_payloads(_seed: u64) -> Vec<Payload> { vec![] }
pub fn heavy_update_payloads(_seed: u64) -> Vec<UpdatePayload> { vec![] }
pub fn credentials(_ctx: &mut Ctx) {}
pub fn crypto(_ctx: &mut Ctx) {}
