//! C05: fixtures that need the cryptographic pipelines (credentials, encrypted transfers,
//! identity provider / revoker infos, token payloads) and the registry groups built on them.
use crate::c05::{addr, amt, rng, sweep_cost};
use crate::harness::*;
use concordium_base::{
    aggregate_sig,
    base::*,
    bulletproofs::range_proof::RangeProof,
    common::types::{CredentialIndex, KeyIndex, KeyPair, TransactionTime},
    contracts_common::{AccountAddress, SignatureThreshold},
    curve_arithmetic::Curve,
    ecvrf, elgamal,
    encrypted_transfers::{self, types::*},
    id::{
        account_holder::{create_credential, generate_pio, generate_pio_v1_with_rng},
        constants::{ArCurve, AttributeKind, IpPairing},
        identity_provider::{verify_credentials, verify_credentials_v1},
        secret_sharing::Threshold,
        test::{test_create_ars, test_create_id_use_data, test_create_ip_info},
        types::*,
    },
    pedersen_commitment::{Commitment, CommitmentKey, Value},
    protocol_level_tokens::{RawCbor, TokenId, TokenModuleRef, TokenOperationsPayload},
    ps_sig,
    transactions::{AccountAccessStructure, Memo, Payload},
    updates::{CreatePlt, UpdatePayload},
};
use either::Either::{Left, Right};
use std::collections::BTreeMap;

type Cdi = CredentialDeploymentInfo<IpPairing, ArCurve, AttributeKind>;

/// everything in this file decodes group elements (subgroup checks): cost class 25
macro_rules! ent {
    ($t:expr, $ty:ty, $vals:expr) => {{
        let vals: Vec<$ty> = $vals;
        $t.add(move |ctx: &mut Ctx| sweep_cost::<$ty>(ctx, stringify!($ty), vals, 25))
    }};
}

pub struct IdFix {
    pub global:  GlobalContext<ArCurve>,
    pub ip:      IpData<IpPairing>,
    pub ars:     BTreeMap<ArIdentity, ArInfo<ArCurve>>,
    pub pio:     PreIdentityObject<IpPairing, ArCurve>,
    pub pio_v1:  PreIdentityObjectV1<IpPairing, ArCurve>,
    pub initial: InitialCredentialDeploymentInfo<ArCurve, AttributeKind>,
    pub creds:   Vec<Cdi>,
}

fn ym(y: u16, m: u8) -> YearMonth { YearMonth::new(y, m).unwrap() }

fn cred_data(seed: u64, nkeys: u8, threshold: u8) -> CredentialData {
    let mut keys = BTreeMap::new();
    for k in 0..nkeys {
        keys.insert(KeyIndex(k * 7), KeyPair::generate(&mut rng(seed, 8100 + k as u64)));
    }
    CredentialData { keys, threshold: SignatureThreshold::try_from(threshold).unwrap() }
}

/// One identity with two revokers, and credentials: (new account, no revealed attribute,
/// one key), (existing account, two revealed attributes, two keys).
pub fn id_fix(seed: u64) -> IdFix {
    let global = GlobalContext::<ArCurve>::generate_size("mc-codec".into(), 256);
    let mut r = rng(seed, 8000);
    let n = 2u8;
    let ip = test_create_ip_info(&mut r, n, 8);
    let (ars, _) = test_create_ars(&global.on_chain_commitment_key.g, n, &mut r);
    let id_use = test_create_id_use_data(&mut r);
    let ctx = IpContext::new(&ip.public_ip_info, &ars, &global);
    let threshold = Threshold::try_from(2u8).unwrap();
    let mut alist = BTreeMap::new();
    alist.insert(AttributeTag(0), AttributeKind::try_new("a".into()).unwrap());
    alist.insert(AttributeTag(3), AttributeKind::try_new("x".repeat(31)).unwrap());
    alist.insert(AttributeTag(8), AttributeKind::try_new(String::new()).unwrap());
    let alist = AttributeList { valid_to: ym(2030, 5), created_at: ym(2020, 5), max_accounts: 3, alist, _phantom: Default::default() };
    let initial_acc = InitialAccountData { keys: cred_data(seed, 2, 1).keys, threshold: SignatureThreshold::ONE };
    let (pio, _) = generate_pio(&ctx, threshold, &id_use, &initial_acc).expect("pio");
    let expiry = TransactionTime { seconds: 111111111111111111 };
    let (sig, initial) = verify_credentials(&pio, ctx, &alist, expiry, &ip.ip_secret_key, &ip.ip_cdi_secret_key).expect("identity provider accepts");
    let (pio_v1, _) = generate_pio_v1_with_rng(&ctx, threshold, &id_use, &mut r).expect("pio v1");
    let _ = verify_credentials_v1(&pio_v1, ctx, &alist, &ip.ip_secret_key).expect("identity provider accepts v1");
    let ido = IdentityObject { pre_identity_object: pio.clone(), alist: alist.clone(), signature: sig };
    let policy = |tags: &[u8]| {
        let mut pv = BTreeMap::new();
        for t in tags {
            pv.insert(AttributeTag(*t), alist.alist[&AttributeTag(*t)].clone());
        }
        Policy { valid_to: alist.valid_to, created_at: alist.created_at, policy_vec: pv, _phantom: Default::default() }
    };
    let c1 = create_credential(ctx, &ido, &id_use, 0, policy(&[]), &cred_data(seed + 1, 1, 1), &SystemAttributeRandomness {}, &Left(expiry)).expect("credential").0;
    let c2 = create_credential(ctx, &ido, &id_use, 1, policy(&[0, 8]), &cred_data(seed + 2, 2, 2), &SystemAttributeRandomness {}, &Right(AccountAddress([7u8; 32]))).expect("credential").0;
    IdFix { global, ip, ars, pio, pio_v1, initial, creds: vec![c1, c2] }
}

pub struct EncFix {
    pub global:   GlobalContext<ArCurve>,
    pub transfer: EncryptedAmountTransferData<ArCurve>,
    pub to_pub:   SecToPubAmountTransferData<ArCurve>,
    pub amount:   EncryptedAmount<ArCurve>,
    pub pk:       elgamal::PublicKey<ArCurve>,
}

pub fn enc_fix(seed: u64) -> EncFix {
    let global = GlobalContext::<ArCurve>::generate_size("mc-codec".into(), 256);
    let mut r = rng(seed, 8300);
    let sk = elgamal::SecretKey::<ArCurve>::generate(global.elgamal_generator(), &mut r);
    let pk = elgamal::PublicKey::from(&sk);
    let sk2 = elgamal::SecretKey::<ArCurve>::generate(global.elgamal_generator(), &mut r);
    let pk2 = elgamal::PublicKey::from(&sk2);
    let (amount, _) = encrypted_transfers::encrypt_amount(&global, &pk, amt(1_000_000), &mut r);
    let input = AggregatedDecryptedAmount { agg_encrypted_amount: amount.clone(), agg_amount: amt(1_000_000), agg_index: EncryptedAmountAggIndex::from(3u64) };
    let transfer = encrypted_transfers::make_transfer_data(&global, &pk2, &sk, &input, amt(17), &mut r).expect("transfer data");
    let to_pub = encrypted_transfers::make_sec_to_pub_transfer_data(&global, &sk, &input, amt(999_999), &mut r).expect("sec to pub");
    EncFix { global, transfer, to_pub, amount, pk }
}

#[allow(deprecated)]
pub fn heavy_payloads(seed: u64) -> Vec<Payload> {
    let idf = id_fix(seed);
    let enc = enc_fix(seed);
    let mut out = vec![];
    out.push(Payload::UpdateCredentialKeys { cred_id: CredentialRegistrationID::new(idf.creds[0].values.cred_id), keys: idf.creds[1].values.cred_key_info.clone() });
    out.push(Payload::EncryptedAmountTransfer { to: addr(5), data: Box::new(enc.transfer.clone()) });
    out.push(Payload::EncryptedAmountTransferWithMemo { to: addr(5), memo: Memo::try_from(vec![1]).unwrap(), data: Box::new(enc.transfer.clone()) });
    out.push(Payload::TransferToPublic { data: Box::new(enc.to_pub.clone()) });
    let mut one = BTreeMap::new();
    one.insert(CredentialIndex { index: 1 }, idf.creds[0].clone());
    let mut two = one.clone();
    two.insert(CredentialIndex { index: 255 }, idf.creds[1].clone());
    out.push(Payload::UpdateCredentials { new_cred_infos: BTreeMap::new(), remove_cred_ids: vec![], new_threshold: concordium_base::contracts_common::AccountThreshold::try_from(1u8).unwrap() });
    out.push(Payload::UpdateCredentials { new_cred_infos: one, remove_cred_ids: vec![CredentialRegistrationID::new(idf.creds[1].values.cred_id)], new_threshold: concordium_base::contracts_common::AccountThreshold::try_from(2u8).unwrap() });
    out.push(Payload::UpdateCredentials {
        new_cred_infos:  two,
        remove_cred_ids: vec![CredentialRegistrationID::new(idf.creds[1].values.cred_id), CredentialRegistrationID::new(idf.creds[0].values.cred_id)],
        new_threshold:   concordium_base::contracts_common::AccountThreshold::try_from(255u8).unwrap(),
    });
    for (id, ops) in [("T", vec![0x80u8]), ("TOKEN-id.9%", vec![0x81, 0xa1, 0x64, b'm', b'i', b'n', b't', 0xa0])] {
        out.push(Payload::TokenUpdate { payload: TokenOperationsPayload { token_id: TokenId::try_from(id.to_string()).unwrap(), operations: RawCbor::from(ops) } });
    }
    out
}

pub fn heavy_update_payloads(seed: u64) -> Vec<UpdatePayload> {
    let idf = id_fix(seed);
    let ar = idf.ars.values().next().unwrap().clone();
    vec![
        UpdatePayload::AddAnonymityRevoker(Box::new(ar)),
        UpdatePayload::AddIdentityProvider(Box::new(idf.ip.public_ip_info.clone())),
        UpdatePayload::CreatePlt(CreatePlt { token_id: TokenId::try_from("TOK".to_string()).unwrap(), token_module: TokenModuleRef::from([5u8; 32]), decimals: 6, initialization_parameters: RawCbor::from(vec![0xa0]) }),
        UpdatePayload::CreatePlt(CreatePlt { token_id: TokenId::try_from("T".to_string()).unwrap(), token_module: TokenModuleRef::from([0u8; 32]), decimals: 255, initialization_parameters: RawCbor::from(vec![]) }),
    ]
}

pub fn credentials(ctx: &mut Tasks) {
    let idf = id_fix(ctx.seed);
    let c = &idf.creds;
    ent!(ctx, Cdi, c.clone());
    ent!(ctx, CredentialDeploymentValues<ArCurve, AttributeKind>, c.iter().map(|x| x.values.clone()).collect());
    ent!(ctx, CredDeploymentProofs<IpPairing, ArCurve>, c.iter().map(|x| x.proofs.clone()).collect());
    ent!(ctx, IdOwnershipProofs<IpPairing, ArCurve>, c.iter().map(|x| x.proofs.id_proofs.clone()).collect());
    ent!(ctx, CredentialDeploymentCommitments<ArCurve>, c.iter().map(|x| x.proofs.id_proofs.commitments.clone()).collect());
    ent!(ctx, AccountOwnershipProof, c.iter().map(|x| x.proofs.proof_acc_sk.clone()).collect());
    ent!(ctx, CredentialPublicKeys, c.iter().map(|x| x.values.cred_key_info.clone()).collect());
    ent!(ctx, VerifyKey, c[1].values.cred_key_info.keys.values().cloned().collect());
    ent!(ctx, Policy<ArCurve, AttributeKind>, c.iter().map(|x| x.values.policy.clone()).collect());
    ent!(ctx, ChainArData<ArCurve>, c[0].values.ar_data.values().cloned().collect());
    ent!(ctx, YearMonth, vec![ym(1000, 1), ym(2020, 5), ym(9999, 12)]);
    ent!(ctx, AttributeTag, vec![AttributeTag(0), AttributeTag(13), AttributeTag(253)]);
    ent!(ctx, AttributeKind, ["", "a", &"z".repeat(31)].iter().map(|s| AttributeKind::try_new(s.to_string()).unwrap()).collect());
    ent!(ctx, InitialCredentialDeploymentInfo<ArCurve, AttributeKind>, vec![idf.initial.clone()]);
    let expiry = TransactionTime { seconds: 77 };
    ent!(ctx, AccountCredentialMessage<IpPairing, ArCurve, AttributeKind>, vec![
        AccountCredentialMessage { message_expiry: expiry, credential: AccountCredential::Normal { cdi: c[0].clone() } },
        AccountCredentialMessage { message_expiry: expiry, credential: AccountCredential::Initial { icdi: idf.initial.clone() } },
    ]);
    ent!(ctx, AccountCredential<IpPairing, ArCurve, AttributeKind>, vec![AccountCredential::Normal { cdi: c[1].clone() }, AccountCredential::Initial { icdi: idf.initial.clone() }]);
    ent!(ctx, concordium_base::transactions::BlockItem<concordium_base::transactions::EncodedPayload>, vec![concordium_base::transactions::BlockItem::CredentialDeployment(Box::new(AccountCredentialMessage { message_expiry: expiry, credential: AccountCredential::Normal { cdi: c[0].clone() } }))]);
    ent!(ctx, IpInfo<IpPairing>, vec![idf.ip.public_ip_info.clone()]);
    ent!(ctx, ArInfo<ArCurve>, idf.ars.values().cloned().collect());
    ent!(ctx, Description, vec![Description { name: "".into(), url: "".into(), description: "".into() }, Description { name: "n".into(), url: "https://u".into(), description: "d".repeat(300) }]);
    ent!(ctx, GlobalContext<ArCurve>, vec![GlobalContext::<ArCurve>::generate_size("g".into(), 2), GlobalContext::<ArCurve>::generate_size("".into(), 0)]);
    ent!(ctx, PreIdentityObject<IpPairing, ArCurve>, vec![idf.pio.clone()]);
    ent!(ctx, PreIdentityObjectV1<IpPairing, ArCurve>, vec![idf.pio_v1.clone()]);
    let mut keys = BTreeMap::new();
    keys.insert(CredentialIndex { index: 0 }, c[0].values.cred_key_info.clone());
    let one = AccountAccessStructure { keys: keys.clone(), threshold: concordium_base::contracts_common::AccountThreshold::try_from(1u8).unwrap() };
    keys.insert(CredentialIndex { index: 255 }, c[1].values.cred_key_info.clone());
    let two = AccountAccessStructure { keys, threshold: concordium_base::contracts_common::AccountThreshold::try_from(2u8).unwrap() };
    ent!(ctx, AccountAccessStructure, vec![one, two]);
}

pub fn crypto(ctx: &mut Tasks) {
    let enc = enc_fix(ctx.seed);
    ent!(ctx, EncryptedAmount<ArCurve>, vec![enc.amount.clone(), enc.transfer.remaining_amount.clone()]);
    ent!(ctx, EncryptedAmountTransferData<ArCurve>, vec![enc.transfer.clone()]);
    ent!(ctx, SecToPubAmountTransferData<ArCurve>, vec![enc.to_pub.clone()]);
    ent!(ctx, EncryptedAmountTransferProof<ArCurve>, vec![enc.transfer.proof.clone()]);
    ent!(ctx, SecToPubAmountTransferProof<ArCurve>, vec![enc.to_pub.proof.clone()]);
    ent!(ctx, EncryptedAmountAggIndex, vec![EncryptedAmountAggIndex::from(0u64), EncryptedAmountAggIndex::from(u64::MAX)]);
    ent!(ctx, elgamal::PublicKey<ArCurve>, vec![enc.pk.clone()]);
    ent!(ctx, elgamal::Cipher<ArCurve>, enc.amount.encryptions.to_vec());
    let mut r = rng(ctx.seed, 8400);
    let key = CommitmentKey::<ArCurve>::generate(&mut r);
    ent!(ctx, Commitment<ArCurve>, vec![key.commit(&Value::<ArCurve>::new(ArCurve::scalar_from_u64(7)), &mut r).0, Commitment(ArCurve::zero_point())]);
    ent!(ctx, CommitmentKey<ArCurve>, vec![key]);
    ent!(ctx, RangeProof<ArCurve>, vec![enc.to_pub.proof.remaining_amount_correct_encryption.clone()]);
    // signature schemes
    let sk = aggregate_sig::SecretKey::<IpPairing>::generate(&mut r);
    let pk = aggregate_sig::PublicKey::from_secret(&sk);
    ent!(ctx, aggregate_sig::PublicKey<IpPairing>, vec![pk]);
    ent!(ctx, aggregate_sig::Signature<IpPairing>, vec![sk.sign(b"m"), aggregate_sig::Signature::<IpPairing>::empty()]);
    let vsk = ecvrf::SecretKey::generate(&mut r);
    let vpk = ecvrf::PublicKey::from(&vsk);
    ent!(ctx, ecvrf::PublicKey, vec![vpk]);
    ent!(ctx, ecvrf::Proof, vec![vsk.prove(&vpk, b"alpha")]);
    let pssk = ps_sig::SecretKey::<IpPairing>::generate(3, &mut r);
    let pspk = ps_sig::PublicKey::from(&pssk);
    ent!(ctx, ps_sig::PublicKey<IpPairing>, vec![pspk, ps_sig::PublicKey::from(&ps_sig::SecretKey::<IpPairing>::generate(0, &mut r))]);
    let kp = BakerKeyPairs::generate(&mut r);
    ent!(ctx, BakerSignatureVerifyKey, vec![kp.signature_verify.clone()]);
    ent!(ctx, BakerElectionVerifyKey, vec![kp.election_verify.clone()]);
    ent!(ctx, BakerAggregationVerifyKey, vec![kp.aggregation_verify.clone()]);
}
