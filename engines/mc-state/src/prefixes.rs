//! C15 layer 1: the reference-counted map of locked prefixes alone (through hook H1).
//! Stateless exhaustive search over all insert/delete histories up to a depth (no
//! deduplication at all); after every step every query on a closed set of keys is compared
//! with a multiset of prefixes.

use concordium_smart_contract_engine::v1::trie::verif_hooks::VerifPrefixesMap;
use mc_core::{Report, Tier};
use rayon::prelude::*;
use serde_json::json;

fn prefixes() -> Vec<Vec<u8>> { vec![vec![], vec![b'a'], vec![b'a', b'b'], vec![b'a', b'b', b'c'], vec![b'b']] }

fn queries() -> Vec<Vec<u8>> {
    vec![
        vec![],
        vec![b'a'],
        vec![b'a', b'b'],
        vec![b'a', b'b', b'c'],
        vec![b'a', b'b', b'c', b'd'],
        vec![b'b'],
        vec![b'b', b'a'],
        vec![b'c'],
        vec![b'a', b'c'],
        vec![b'a', b'b', b'd'],
    ]
}

/// op i < n: insert prefix i; op i >= n: delete prefix i-n
fn run_history(hist: &[usize]) -> Result<u64, (String, serde_json::Value)> {
    let ps = prefixes();
    let qs = queries();
    let n = ps.len();
    let mut real = VerifPrefixesMap::new();
    let mut model: Vec<Vec<u8>> = vec![];
    let mut checks = 0u64;
    for (step, &op) in hist.iter().enumerate() {
        if op < n {
            let r = real.insert(&ps[op]);
            if r.is_err() {
                return Err(("lock-insert-refused".into(), json!({"step": step})));
            }
            model.push(ps[op].clone());
        } else {
            let p = &ps[op - n];
            let got = real.delete(p);
            let pos = model.iter().position(|x| x == p);
            if let Some(i) = pos {
                model.remove(i);
            }
            if got != pos.is_some() {
                return Err(("lock-delete-result".into(), json!({"step": step, "expected": pos.is_some(), "observed": got})));
            }
        }
        for q in &qs {
            checks += 1;
            let want_no_prefix = !model.iter().any(|p| q.starts_with(p));
            let got_no_prefix = real.check_has_no_prefix(q).is_ok();
            if want_no_prefix != got_no_prefix {
                return Err((
                    "lock-check-differs".into(),
                    json!({"step": step, "query": mc_core::hex(q), "locked_prefixes": model.iter().map(|p| mc_core::hex(p)).collect::<Vec<_>>(), "expected_unlocked": want_no_prefix, "observed_unlocked": got_no_prefix}),
                ));
            }
            let want_any = model.iter().any(|p| q.starts_with(p) || p.starts_with(q));
            let got_any = real.is_or_has_prefix(q);
            if want_any != got_any {
                return Err((
                    "lock-prefix-query-differs".into(),
                    json!({"step": step, "query": mc_core::hex(q), "locked_prefixes": model.iter().map(|p| mc_core::hex(p)).collect::<Vec<_>>(), "expected": want_any, "observed": got_any}),
                ));
            }
        }
    }
    Ok(checks)
}

pub fn run(report: &Report, tier: Tier) {
    let n_ops = prefixes().len() * 2;
    let depth = if tier == Tier::Quick { 6 } else { 8 };
    // all words of length exactly `depth` (every prefix of a word is checked on the way)
    let firsts: Vec<usize> = (0..n_ops).collect();
    let totals: Vec<(u64, u64)> = firsts
        .par_iter()
        .map(|&f| {
            let mut hist = vec![f; 1];
            hist.resize(depth, 0);
            let mut n = 0u64;
            let mut checks = 0u64;
            loop {
                n += 1;
                match mc_core::catch(|| run_history(&hist)) {
                    Ok(Ok(c)) => checks += c,
                    Ok(Err((k, d))) => report.violation(&k, json!({"layer": "prefix-map", "history": hist}), d),
                    Err(p) => report.violation("panic", json!({"layer": "prefix-map", "history": hist}), json!({"panic": p})),
                }
                // next word (position 0 fixed)
                let mut i = depth - 1;
                loop {
                    if i == 0 {
                        return (n, checks);
                    }
                    hist[i] += 1;
                    if hist[i] < n_ops {
                        break;
                    }
                    hist[i] = 0;
                    i -= 1;
                }
            }
        })
        .collect();
    let n: u64 = totals.iter().map(|x| x.0).sum();
    let checks: u64 = totals.iter().map(|x| x.1).sum();
    report.eval(n);
    report.transition(n * depth as u64);
    report.trace(n);
    report.nontrivial(n);
    report.state(n);
    report.set_extra("prefix_map_histories", json!(n));
    report.set_extra("prefix_map_depth", json!(depth));
    report.set_extra("prefix_map_queries_checked", json!(checks));
    report.sample(json!({"prefix_map_history": "all words of insert/delete over {'', a, ab, abc, b}"}));
}
