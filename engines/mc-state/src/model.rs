//! Reference model of the contract state: a stack of ordered maps (one per live
//! generation) with a multiset of locked prefixes and snapshot iterators per generation,
//! and an independent implementation of the documented state hash.

use sha2::{Digest, Sha256};
use std::collections::BTreeMap;

pub type Key = Vec<u8>;
pub type Val = Vec<u8>;
pub type Map = BTreeMap<Key, Val>;

#[derive(Clone, Debug, PartialEq, Eq)]
pub struct MIter {
    pub root: Key,
    /// keys under `root` at creation time, ascending
    pub keys: Vec<Key>,
    pub pos:  usize,
    /// key of the entry returned by the last `next` (None before the first call)
    pub current: Option<Key>,
}

#[derive(Clone, Debug, Default, PartialEq, Eq)]
pub struct MFrame {
    pub map:   Map,
    /// multiset of locked prefixes (one per live iterator created in this generation)
    pub locks: Vec<Key>,
    pub iters: Vec<Option<MIter>>,
}

impl MFrame {
    pub fn with_map(map: Map) -> Self { MFrame { map, locks: vec![], iters: vec![] } }

    /// Is `key` at or under a locked prefix?
    pub fn locked(&self, key: &[u8]) -> bool { self.locks.iter().any(|p| key.starts_with(p)) }

    /// Does deleting everything under `prefix` touch a locked area?
    pub fn prefix_locked(&self, prefix: &[u8]) -> bool { self.locks.iter().any(|p| prefix.starts_with(p) || p.starts_with(prefix)) }

    pub fn keys_under(&self, prefix: &[u8]) -> Vec<Key> { self.map.keys().filter(|k| k.starts_with(prefix)).cloned().collect() }
}

// ---- reference hash -------------------------------------------------------------------

fn nibbles(key: &[u8]) -> Vec<u8> {
    let mut n = Vec::with_capacity(key.len() * 2);
    for b in key {
        n.push(b >> 4);
        n.push(b & 0x0f);
    }
    n
}

fn pack(n: &[u8]) -> Vec<u8> {
    let mut out = Vec::with_capacity((n.len() + 1) / 2);
    for c in n.chunks(2) {
        out.push((c[0] << 4) | c.get(1).copied().unwrap_or(0));
    }
    out
}

fn value_hash(v: &[u8]) -> [u8; 32] {
    let mut h = Sha256::new();
    h.update((v.len() as u64).to_be_bytes());
    h.update(v);
    h.finalize().into()
}

/// Hash of the canonical path-compressed radix-16 tree over `items` (nibble keys, all of
/// which share the first `depth` nibbles, already consumed by the ancestors).
fn node_hash(items: &[(Vec<u8>, &Val)], depth: usize) -> [u8; 32] {
    // longest common prefix of all keys from `depth`
    let first = &items[0].0;
    let mut lcp = first.len();
    for (k, _) in items {
        let mut i = depth;
        while i < lcp && i < k.len() && k[i] == first[i] {
            i += 1;
        }
        lcp = lcp.min(i);
    }
    let stem = &first[depth..lcp];
    let mut h = Sha256::new();
    let value = items.iter().find(|(k, _)| k.len() == lcp);
    match value {
        Some((_, v)) => {
            h.update([1u8]);
            h.update(value_hash(v));
        }
        None => h.update([0u8]),
    }
    h.update((stem.len() as u64).to_le_bytes());
    h.update(pack(stem));
    // children by branching nibble
    let mut ch = Sha256::new();
    let mut groups: Vec<(u8, Vec<(Vec<u8>, &Val)>)> = vec![];
    for (k, v) in items {
        if k.len() > lcp {
            let nib = k[lcp];
            match groups.last_mut() {
                Some((n, g)) if *n == nib => g.push((k.clone(), *v)),
                _ => groups.push((nib, vec![(k.clone(), *v)])),
            }
        }
    }
    ch.update((groups.len() as u16).to_be_bytes());
    for (nib, g) in &groups {
        ch.update([*nib]);
        ch.update(node_hash(g, lcp + 1));
    }
    h.update(ch.finalize());
    h.finalize().into()
}

/// The documented Merkle hash of a contract state with the given contents.
pub fn ref_hash(map: &Map) -> [u8; 32] {
    if map.is_empty() {
        return Sha256::digest(b"empty contract state").into();
    }
    // BTreeMap order on byte keys = order on nibble keys
    let items: Vec<(Vec<u8>, &Val)> = map.iter().map(|(k, v)| (nibbles(k), v)).collect();
    node_hash(&items, 0)
}

#[cfg(test)]
mod tests {
    use super::*;
    #[test]
    fn empty() {
        let h = ref_hash(&Map::new());
        assert_eq!(h[..], Sha256::digest(b"empty contract state")[..]);
    }
}
