//! Drives the real `MutableState` / `MutableTrie` / `PersistentState` next to the
//! reference model, one operation at a time, comparing every observable after every step.

use crate::model::*;
use concordium_smart_contract_engine::v1::trie::{
    self, verif_hooks, EmptyCollector, Loadable, Loader, MutableState, MutableTrie, PersistentState, SizeCollector,
};
use serde_json::{json, Value as J};

pub fn keys() -> Vec<Key> {
    vec![vec![], vec![0x12], vec![0x12, 0x34], vec![0x12, 0x35], vec![0x13], vec![0x12, 0x34, 0x56], vec![0x22]]
}

/// empty, one byte, just above / exactly at / just below the inline bound (64 bytes)
pub fn vals() -> Vec<Val> { vec![vec![], vec![0x07], vec![0x09; 65], vec![0x0A; 64], vec![0x0B; 63]] }

#[derive(Clone, Copy, Debug, PartialEq, Eq, Hash)]
pub enum Persist {
    Plain,
    StoreReload,
    StoreReloadCache,
    SerDe,
    Migrate,
}

#[derive(Clone, Copy, Debug, PartialEq, Eq, Hash)]
pub enum Op {
    Insert(usize, usize),
    Delete(usize),
    DeletePrefix(usize),
    GetMutToggle(usize),
    SetEntry(usize, usize),
    Iter(usize),
    Next(usize),
    DelIter(usize),
    Checkpoint,
    Rollback,
    Commit,
    /// abandon the newest generation and take a new checkpoint of its parent at once -- nothing
    /// looks at the parent in between (two nested calls in a row, the first one failing)
    RollbackCheckpoint,
    Refreeze(Persist),
}

pub fn op_json(op: &Op) -> J {
    let ks = keys();
    let hk = |i: usize| mc_core::hex(&ks[i]);
    match op {
        Op::Insert(k, v) => json!(["insert", hk(*k), v]),
        Op::Delete(k) => json!(["delete", hk(*k)]),
        Op::DeletePrefix(k) => json!(["delete_prefix", hk(*k)]),
        Op::GetMutToggle(k) => json!(["get_mut_toggle", hk(*k)]),
        Op::SetEntry(k, v) => json!(["set_entry", hk(*k), v]),
        Op::Iter(k) => json!(["iter", hk(*k)]),
        Op::Next(i) => json!(["next", i]),
        Op::DelIter(i) => json!(["delete_iter", i]),
        Op::Checkpoint => json!(["checkpoint"]),
        Op::Rollback => json!(["rollback"]),
        Op::Commit => json!(["commit"]),
        Op::RollbackCheckpoint => json!(["rollback_then_checkpoint"]),
        Op::Refreeze(p) => json!(["refreeze", format!("{p:?}")]),
    }
}

pub fn op_from_json(j: &J) -> Option<Op> {
    let ks = keys();
    let a = j.as_array()?;
    let name = a.first()?.as_str()?;
    let kidx = |i: usize| -> Option<usize> {
        let h = a.get(i)?.as_str()?;
        ks.iter().position(|k| mc_core::hex(k) == h)
    };
    let u = |i: usize| a.get(i).and_then(|x| x.as_u64()).map(|x| x as usize);
    Some(match name {
        "insert" => Op::Insert(kidx(1)?, u(2)?),
        "delete" => Op::Delete(kidx(1)?),
        "delete_prefix" => Op::DeletePrefix(kidx(1)?),
        "get_mut_toggle" => Op::GetMutToggle(kidx(1)?),
        "set_entry" => Op::SetEntry(kidx(1)?, u(2)?),
        "iter" => Op::Iter(kidx(1)?),
        "next" => Op::Next(u(1)?),
        "delete_iter" => Op::DelIter(u(1)?),
        "checkpoint" => Op::Checkpoint,
        "rollback" => Op::Rollback,
        "commit" => Op::Commit,
        "rollback_then_checkpoint" => Op::RollbackCheckpoint,
        "refreeze" => Op::Refreeze(match a.get(1)?.as_str()? {
            "Plain" => Persist::Plain,
            "StoreReload" => Persist::StoreReload,
            "StoreReloadCache" => Persist::StoreReloadCache,
            "SerDe" => Persist::SerDe,
            "Migrate" => Persist::Migrate,
            _ => return None,
        }),
        _ => return None,
    })
}

#[derive(Clone, Copy, Debug, PartialEq, Eq, Hash)]
pub enum Init {
    Empty,
    /// thawed from an in-memory persistent state
    Memory,
    /// thawed from a persistent state whose nodes live only in the backing store
    Stored,
}

pub fn init_contents() -> Map {
    let mut m = Map::new();
    m.insert(vec![0x12], vec![0x07]);
    m.insert(vec![0x12, 0x34], vec![0x09; 65]);
    m.insert(vec![0x13], vec![]);
    m
}

struct RFrame {
    state: MutableState,
    iters: Vec<Option<verif_hooks::VerifIterator>>,
    root:  u32,
}

pub struct Harness {
    store:        Vec<u8>,
    frames:       Vec<RFrame>,
    origin:       PersistentState,
    pub model:    Vec<MFrame>,
    origin_model: Map,
    pub max_iters: usize,
    pub max_depth: usize,
}

pub type Violation = (String, J);

fn collect(p: &PersistentState, store: &[u8]) -> Vec<(Key, Val)> {
    let mut loader = Loader::new(store);
    p.clone().into_iterator(&mut loader).collect()
}

fn hash_of(p: &PersistentState, store: &[u8]) -> [u8; 32] {
    let mut loader = Loader::new(store);
    let h = p.hash(&mut loader);
    let mut out = [0u8; 32];
    out.copy_from_slice(h.as_ref());
    out
}

fn map_vec(m: &Map) -> Vec<(Key, Val)> { m.iter().map(|(k, v)| (k.clone(), v.clone())).collect() }

fn kv_json(v: &[(Key, Val)]) -> J { J::Array(v.iter().map(|(k, v)| json!([mc_core::hex(k), v.len(), v.first()])).collect()) }

impl Harness {
    pub fn new(init: Init) -> Harness {
        let mut store: Vec<u8> = Vec::new();
        let (origin, origin_model) = match init {
            Init::Empty => (PersistentState::Empty, Map::new()),
            Init::Memory => {
                let m = init_contents();
                (PersistentState::from_iterator(m.iter().map(|(k, v)| (&k[..], v.clone()))), m)
            }
            Init::Stored => {
                let m = init_contents();
                let mut p = PersistentState::from_iterator(m.iter().map(|(k, v)| (&k[..], v.clone())));
                let reference = p.store_update(&mut store).expect("store to a Vec cannot fail");
                let mut loader = Loader::new(&store[..]);
                let loaded = PersistentState::load_from_location(&mut loader, reference).expect("just stored");
                (loaded, m)
            }
        };
        let state = origin.thaw();
        Harness {
            store,
            frames: vec![RFrame { state, iters: vec![], root: 0 }],
            origin,
            model: vec![MFrame::with_map(origin_model.clone())],
            origin_model,
            max_iters: 2,
            max_depth: 3,
        }
    }

    /// Operations enabled in the current (model) state, simplest first.
    pub fn enabled(&self, alphabet: &[Op]) -> Vec<Op> {
        let top = self.model.last().unwrap();
        let live = top.iters.iter().filter(|x| x.is_some()).count();
        alphabet
            .iter()
            .copied()
            .filter(|op| match op {
                Op::Iter(_) => live < self.max_iters && top.iters.len() < self.max_iters + 1,
                Op::Next(i) | Op::DelIter(i) => top.iters.get(*i).map(|x| x.is_some()).unwrap_or(false),
                Op::Checkpoint => self.model.len() < self.max_depth,
                Op::Rollback | Op::Commit | Op::RollbackCheckpoint => self.model.len() > 1,
                Op::Refreeze(_) => self.model.len() == 1,
                _ => true,
            })
            .collect()
    }

    fn with_top_trie<X>(&mut self, f: impl FnOnce(&mut MutableTrie, &mut Loader<&[u8]>, &mut Vec<Option<verif_hooks::VerifIterator>>) -> X) -> X {
        let mut loader = Loader::new(&self.store[..]);
        let top = self.frames.last_mut().unwrap();
        let inner = top.state.get_inner(&mut loader);
        let mut trie = inner.lock();
        f(&mut trie, &mut loader, &mut top.iters)
    }

    /// Apply one operation to the implementation and to the model and compare the results.
    pub fn apply(&mut self, op: Op) -> Result<(), Violation> {
        let ks = keys();
        let vs = vals();
        let bad = |what: &str, expected: J, observed: J| -> Violation { (what.to_string(), json!({"op": op_json(&op), "expected": expected, "observed": observed})) };
        match op {
            Op::Insert(k, v) => {
                let key = &ks[k];
                let val = vs[v].clone();
                let got = self.with_top_trie(|t, l, _| t.insert(l, key, val.clone()).map(|(_, existed)| existed).map_err(|_| ()));
                let top = self.model.last_mut().unwrap();
                let exp = if top.locked(key) { Err(()) } else { Ok(top.map.insert(key.clone(), val).is_some()) };
                if got != exp {
                    return Err(bad("insert-result", json!(format!("{exp:?}")), json!(format!("{got:?}"))));
                }
            }
            Op::Delete(k) => {
                let key = &ks[k];
                let got = self.with_top_trie(|t, l, _| t.delete(l, key).map_err(|_| ()));
                let top = self.model.last_mut().unwrap();
                let exp = if top.locked(key) { Err(()) } else { Ok(top.map.remove(key).is_some()) };
                if got != exp {
                    return Err(bad("delete-result", json!(format!("{exp:?}")), json!(format!("{got:?}"))));
                }
            }
            Op::DeletePrefix(k) => {
                let key = &ks[k];
                let got = self.with_top_trie(|t, l, _| verif_hooks::delete_prefix(t, l, key).map_err(|_| ()));
                let top = self.model.last_mut().unwrap();
                let exp = if top.map.is_empty() {
                    Ok(false)
                } else if top.prefix_locked(key) {
                    Err(())
                } else {
                    let under = top.keys_under(key);
                    for u in &under {
                        top.map.remove(u);
                    }
                    Ok(!under.is_empty())
                };
                if got != exp {
                    return Err(bad("delete-prefix-result", json!(format!("{exp:?}")), json!(format!("{got:?}"))));
                }
            }
            Op::GetMutToggle(k) => {
                let key = &ks[k];
                let got = self.with_top_trie(|t, l, _| {
                    let e = t.get_entry(l, key)?;
                    verif_hooks::with_mut(t, l, e, |v| {
                        if v.last() == Some(&0xAA) {
                            v.pop();
                        } else {
                            v.push(0xAA);
                        }
                        v.clone()
                    })
                });
                let top = self.model.last_mut().unwrap();
                let exp = top.map.get_mut(key).map(|v| {
                    if v.last() == Some(&0xAA) {
                        v.pop();
                    } else {
                        v.push(0xAA);
                    }
                    v.clone()
                });
                if got != exp {
                    return Err(bad("get-mut-result", json!(exp.map(|v| v.len())), json!(got.map(|v| v.len()))));
                }
            }
            Op::SetEntry(k, v) => {
                let key = &ks[k];
                let val = vs[v].clone();
                let got = self.with_top_trie(|t, l, _| {
                    let e = t.get_entry(l, key)?;
                    t.set(e, val.clone()).map(|x| x.clone())
                });
                let top = self.model.last_mut().unwrap();
                let exp = top.map.get_mut(key).map(|x| {
                    *x = val.clone();
                    val.clone()
                });
                if got != exp {
                    return Err(bad("set-entry-result", json!(exp.map(|v| v.len())), json!(got.map(|v| v.len()))));
                }
            }
            Op::Iter(k) => {
                let key = &ks[k];
                let got = self.with_top_trie(|t, l, iters| match verif_hooks::iter(t, l, key) {
                    Ok(Some(it)) => {
                        let root = it.root().to_vec();
                        let cur = it.key().to_vec();
                        iters.push(Some(it));
                        Ok(Some((root, cur)))
                    }
                    Ok(None) => Ok(None),
                    Err(_) => Err(()),
                });
                let top = self.model.last_mut().unwrap();
                let under = top.keys_under(key);
                let exp = if under.is_empty() {
                    Ok(None)
                } else {
                    top.locks.push(key.clone());
                    top.iters.push(Some(MIter { root: key.clone(), keys: under, pos: 0, current: None }));
                    Ok(Some((key.clone(), key.clone())))
                };
                if got != exp {
                    return Err(bad("iter-result", json!(format!("{exp:?}")), json!(format!("{got:?}"))));
                }
            }
            Op::Next(i) => {
                let got = self.with_top_trie(|t, l, iters| {
                    let it = iters[i].as_mut().expect("enabled");
                    let e = verif_hooks::next(t, l, it)?;
                    let key = it.key().to_vec();
                    let val = t.with_entry(e, l, |v| v.to_vec());
                    Some((key, val))
                });
                let top = self.model.last_mut().unwrap();
                let it = top.iters[i].as_mut().expect("enabled");
                let exp = if it.pos < it.keys.len() {
                    let key = it.keys[it.pos].clone();
                    it.pos += 1;
                    it.current = Some(key.clone());
                    let val = top.map.get(&key).cloned();
                    Some((key, val))
                } else {
                    None
                };
                if got != exp {
                    return Err(bad(
                        "iterator-next",
                        json!(exp.map(|(k, v)| (mc_core::hex(&k), v.map(|v| v.len())))),
                        json!(got.map(|(k, v)| (mc_core::hex(&k), v.map(|v| v.len())))),
                    ));
                }
            }
            Op::DelIter(i) => {
                let got = self.with_top_trie(|t, _, iters| {
                    let it = iters[i].take().expect("enabled");
                    verif_hooks::delete_iter(t, &it)
                });
                let top = self.model.last_mut().unwrap();
                let it = top.iters[i].take().expect("enabled");
                let pos = top.locks.iter().position(|p| *p == it.root);
                let exp = pos.is_some();
                if let Some(p) = pos {
                    top.locks.remove(p);
                }
                if got != exp {
                    return Err(bad("delete-iter-result", json!(exp), json!(got)));
                }
            }
            Op::Checkpoint => {
                let mut loader = Loader::new(&self.store[..]);
                let top = self.frames.last_mut().unwrap();
                let child = top.state.make_fresh_generation(&mut loader);
                let root = top.root + 1;
                self.frames.push(RFrame { state: child, iters: vec![], root });
                let m = self.model.last().unwrap().map.clone();
                self.model.push(MFrame::with_map(m));
            }
            Op::Rollback => {
                self.frames.pop();
                self.model.pop();
            }
            Op::RollbackCheckpoint => {
                self.frames.pop();
                self.model.pop();
                let mut loader = Loader::new(&self.store[..]);
                let top = self.frames.last_mut().unwrap();
                let child = top.state.make_fresh_generation(&mut loader);
                let root = top.root + 1;
                self.frames.push(RFrame { state: child, iters: vec![], root });
                let m = self.model.last().unwrap().map.clone();
                self.model.push(MFrame::with_map(m));
            }
            Op::Commit => {
                let n = self.frames.len();
                self.frames.remove(n - 2);
                self.model.remove(n - 2);
            }
            Op::Refreeze(p) => return self.refreeze(p, op),
        }
        Ok(())
    }

    fn refreeze(&mut self, persist: Persist, op: Op) -> Result<(), Violation> {
        let bad = |what: &str, d: J| -> Violation { (what.to_string(), json!({"op": op_json(&op), "detail": d})) };
        let map = self.model.last().unwrap().map.clone();
        let want = map_vec(&map);
        let want_hash = ref_hash(&map);
        let mut frozen = {
            let mut loader = Loader::new(&self.store[..]);
            let top = self.frames.last_mut().unwrap();
            top.iters.clear();
            top.state.freeze(&mut loader, &mut EmptyCollector)
        };
        let h0 = hash_of(&frozen, &self.store);
        if h0 != want_hash {
            return Err(bad("hash-not-canonical", json!({"contents": kv_json(&want), "expected": mc_core::hex(&want_hash), "observed": mc_core::hex(&h0)})));
        }
        // persistence deviation
        let after: PersistentState = match persist {
            Persist::Plain => frozen.clone(),
            Persist::StoreReload | Persist::StoreReloadCache => {
                let r1 = frozen.store_update(&mut self.store).map_err(|e| bad("store-failed", json!(format!("{e:?}"))))?;
                // storing an already stored tree again must give a reference that loads to the same state
                let r2 = frozen.store_update(&mut self.store).map_err(|e| bad("store-failed", json!(format!("{e:?}"))))?;
                {
                    let mut loader = Loader::new(&self.store[..]);
                    let l2 = PersistentState::load_from_location(&mut loader, r2).map_err(|e| bad("reload-failed", json!(format!("{e:?}"))))?;
                    if hash_of(&l2, &self.store) != want_hash || collect(&l2, &self.store) != want {
                        return Err(bad("second-store-differs", json!({})));
                    }
                }
                let mut loader = Loader::new(&self.store[..]);
                let mut loaded = PersistentState::load_from_location(&mut loader, r1).map_err(|e| bad("reload-failed", json!(format!("{e:?}"))))?;
                if persist == Persist::StoreReloadCache {
                    loaded.cache(&mut loader);
                }
                loaded
            }
            Persist::SerDe => {
                let mut buf = vec![];
                {
                    let mut loader = Loader::new(&self.store[..]);
                    frozen.serialize(&mut loader, &mut buf).map_err(|e| bad("serialize-failed", json!(format!("{e:#}"))))?;
                }
                let de = PersistentState::deserialize(&mut std::io::Cursor::new(&buf)).map_err(|e| bad("deserialize-failed", json!(format!("{e:#}"))))?;
                // byte stability
                let mut buf2 = vec![];
                {
                    let mut loader = Loader::new(&self.store[..]);
                    de.serialize(&mut loader, &mut buf2).map_err(|e| bad("serialize-failed", json!(format!("{e:#}"))))?;
                }
                if buf != buf2 {
                    return Err(bad("serialisation-not-stable", json!({"len1": buf.len(), "len2": buf2.len()})));
                }
                de
            }
            Persist::Migrate => {
                let mut new_store: Vec<u8> = Vec::new();
                let migrated = {
                    let mut loader = Loader::new(&self.store[..]);
                    frozen.migrate(&mut new_store, &mut loader).map_err(|e| bad("migrate-failed", json!(format!("{e:?}"))))?
                };
                // the migrated state must be readable from the new store alone
                self.store = new_store;
                migrated
            }
        };
        let h1 = hash_of(&after, &self.store);
        if h1 != want_hash {
            return Err(bad("persistence-changes-hash", json!({"persist": format!("{persist:?}"), "expected": mc_core::hex(&want_hash), "observed": mc_core::hex(&h1)})));
        }
        let got = collect(&after, &self.store);
        if got != want {
            return Err(bad("persistence-changes-contents", json!({"persist": format!("{persist:?}"), "expected": kv_json(&want), "observed": kv_json(&got)})));
        }
        for (k, v) in &want {
            let mut loader = Loader::new(&self.store[..]);
            if after.lookup(&mut loader, k).as_ref() != Some(v) {
                return Err(bad("persistent-lookup", json!({"key": mc_core::hex(k)})));
            }
        }
        // refreezing an unmodified (but fully traversed) state reports nothing new to pay for
        {
            let mut loader = Loader::new(&self.store[..]);
            let mut ms = after.thaw();
            {
                let inner = ms.get_inner(&mut loader);
                let mut t = inner.lock();
                for k in keys() {
                    if let Some(e) = t.get_entry(&mut loader, &k) {
                        t.with_entry(e, &mut loader, |_| ());
                    }
                }
            }
            let mut sc = SizeCollector::default();
            let again = ms.freeze(&mut loader, &mut sc);
            let n = sc.collect();
            if n != 0 {
                return Err(bad("unmodified-refreeze-charges", json!({"reported_new_bytes": n})));
            }
            if hash_of(&again, &self.store) != want_hash {
                return Err(bad("unmodified-refreeze-changes-hash", json!({})));
            }
        }
        self.origin = after.clone();
        self.origin_model = map.clone();
        self.frames = vec![RFrame { state: after.thaw(), iters: vec![], root: 0 }];
        self.model = vec![MFrame::with_map(map)];
        Ok(())
    }

    /// Compare every observable of every live generation (and of the persistent state the
    /// mutable state was derived from) with the model.
    pub fn observe(&mut self) -> Result<(), Violation> {
        let ks = keys();
        // point lookups on the top generation
        let lookups: Vec<Option<Val>> = self.with_top_trie(|t, l, _| ks.iter().map(|k| t.get_entry(l, k).and_then(|e| t.with_entry(e, l, |v| v.to_vec()))).collect());
        let top = self.model.last().unwrap();
        for (k, got) in ks.iter().zip(lookups) {
            if got.as_ref() != top.map.get(k) {
                return Err(("lookup-differs".into(), json!({"key": mc_core::hex(k), "expected": top.map.get(k).map(|v| v.len()), "observed": got.map(|v| v.len())})));
            }
        }
        // full read-out of every generation through a frozen clone of the shared trie
        let snapshot: MutableTrie = self.with_top_trie(|t, _, _| t.clone());
        for (i, f) in self.frames.iter().enumerate() {
            let mut c = snapshot.clone();
            verif_hooks::normalize(&mut c, f.root);
            let mut loader = Loader::new(&self.store[..]);
            let p = match c.freeze(&mut loader, &mut EmptyCollector) {
                Some(n) => PersistentState::Root(n),
                None => PersistentState::Empty,
            };
            let got = collect(&p, &self.store);
            let want = map_vec(&self.model[i].map);
            if got != want {
                let what = if i + 1 == self.frames.len() { "contents-differ" } else { "older-generation-changed" };
                return Err((what.into(), json!({"generation": i, "of": self.frames.len(), "expected": kv_json(&want), "observed": kv_json(&got)})));
            }
            let h = hash_of(&p, &self.store);
            let wh = ref_hash(&self.model[i].map);
            if h != wh {
                return Err(("hash-not-canonical".into(), json!({"generation": i, "contents": kv_json(&want), "expected": mc_core::hex(&wh), "observed": mc_core::hex(&h)})));
            }
        }
        // the persistent state this was thawed from must be untouched
        let got = collect(&self.origin, &self.store);
        let want = map_vec(&self.origin_model);
        if got != want {
            return Err(("persistent-origin-changed".into(), json!({"expected": kv_json(&want), "observed": kv_json(&got)})));
        }
        Ok(())
    }

    /// Canonical form for deduplication. `fine` = exact structural identity of the
    /// implementation state (its complete Debug rendering; over-fine is always safe).
    /// Otherwise: the model state (contents, locks and iterator positions of every live
    /// generation, contents of the origin) plus the sizes of the implementation's internal
    /// tables (generations, nodes, entries, owned and borrowed values). Merging on the
    /// coarse key is justified by the property itself (observable futures depend only on
    /// the model state if the property holds) and is cross-checked by the undeduplicated
    /// search and by the fine-keyed search at lower depth.
    pub fn canon(&mut self, fine: bool) -> Vec<u8> {
        let s = if fine {
            let trie_dbg: String = self.with_top_trie(|t, _, iters| format!("{t:?}|{iters:?}"));
            let older: Vec<String> = self.frames.iter().map(|f| format!("{}:{:?}", f.root, f.iters)).collect();
            format!("{trie_dbg}#{older:?}#{:?}#{:?}", self.origin, self.model)
        } else {
            let shape = self.with_top_trie(|t, _, _| verif_hooks::shape(t));
            let roots: Vec<u32> = self.frames.iter().map(|f| f.root).collect();
            format!("{shape:?}#{roots:?}#{:?}#{:?}", self.model, self.origin_model)
        };
        mc_core::sha256(s.as_bytes()).to_vec()
    }

    pub fn depth(&self) -> usize { self.frames.len() }

    pub fn top_map(&self) -> &Map { &self.model.last().unwrap().map }
}

pub fn _unused(_: &dyn Fn() -> trie::Hash) {}
