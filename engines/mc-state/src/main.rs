//! mc-state: explicit-state exploration of operation histories on the real contract-state
//! trie (`MutableState` / `MutableTrie` / `PersistentState` / `InstanceState`) against an
//! ordered-map reference model and an independent implementation of the state hash.
//! Serves C03 (ordered-map semantics, generations), C04 (canonical hash, persistence) and
//! C15 (iterator locks, entry handles).

#[global_allocator]
static ALLOC: mc_core::PoolAlloc = mc_core::PoolAlloc;

mod golden;
mod instance;
mod model;
mod prefixes;
mod trie_harness;

use mc_core::{Cli, Report, Tier};
use rayon::prelude::*;
use serde_json::{json, Value as J};
use std::{
    collections::HashSet,
    time::{Duration, Instant},
};
use trie_harness::*;

fn alphabet(prop: &str, tier: Tier) -> Vec<Op> {
    let nk = keys().len();
    let mut a = vec![];
    let q = tier == Tier::Quick;
    match prop {
        "C03" => {
            for k in 0..nk {
                for v in [1, 2] {
                    a.push(Op::Insert(k, v));
                }
            }
            a.push(Op::Insert(2, 0));
            for k in 0..nk {
                a.push(Op::Delete(k));
            }
            for k in [0, 1, 2, 4] {
                a.push(Op::DeletePrefix(k));
            }
            a.extend([Op::Checkpoint, Op::Rollback, Op::Commit, Op::RollbackCheckpoint, Op::Refreeze(Persist::Plain)]);
            for k in [1, 2, 5] {
                a.push(Op::GetMutToggle(k));
            }
            for k in [1, 2] {
                a.push(Op::SetEntry(k, 2));
                a.push(Op::SetEntry(k, 0));
            }
            for k in [0, 1, 2] {
                a.push(Op::Iter(k));
            }
            a.extend([Op::Next(0), Op::DelIter(0), Op::Next(1), Op::DelIter(1)]);
            if !q {
                a.push(Op::Refreeze(Persist::StoreReload));
            }
        }
        "C04" => {
            // content operations + every persistence deviation at every freeze point
            for k in 0..nk {
                for v in [1, 2] {
                    a.push(Op::Insert(k, v));
                }
            }
            for k in 0..nk {
                a.push(Op::Delete(k));
            }
            for k in [1, 2] {
                a.push(Op::DeletePrefix(k));
            }
            a.extend([
                Op::Refreeze(Persist::Plain),
                Op::Refreeze(Persist::StoreReload),
                Op::Refreeze(Persist::StoreReloadCache),
                Op::Refreeze(Persist::SerDe),
                Op::Refreeze(Persist::Migrate),
            ]);
            a.push(Op::GetMutToggle(2));
            a.push(Op::SetEntry(1, 2));
            // values exactly at and just below the inline bound of 64 bytes
            a.push(Op::Insert(1, 3));
            a.push(Op::Insert(2, 4));
            a.push(Op::SetEntry(2, 3));
            a.extend([Op::Checkpoint, Op::Rollback, Op::Commit, Op::RollbackCheckpoint]);
        }
        "C15" => {
            // lock-relevant alphabet: up to 3 iterators on equal / nested / disjoint prefixes
            for k in [0, 1, 2, 4, 6] {
                a.push(Op::Iter(k));
            }
            for i in 0..3 {
                a.push(Op::Next(i));
                a.push(Op::DelIter(i));
            }
            for k in [1, 2, 3, 5, 6] {
                a.push(Op::Insert(k, 1));
            }
            for k in [1, 2, 5, 6] {
                a.push(Op::Delete(k));
            }
            for k in [0, 1, 2, 6] {
                a.push(Op::DeletePrefix(k));
            }
            a.push(Op::GetMutToggle(2));
            a.push(Op::SetEntry(2, 0));
            a.extend([Op::Checkpoint, Op::Rollback, Op::Commit, Op::RollbackCheckpoint]);
        }
        _ => unreachable!(),
    }
    a
}

/// Rebuild the harness by replaying a history. Replay is deterministic, so a violation
/// while replaying an already accepted prefix is a machinery error.
fn build(init: Init, hist: &[Op], max_iters: usize) -> Harness {
    let mut h = Harness::new(init);
    h.max_iters = max_iters;
    for op in hist {
        if let Err((k, d)) = h.apply(*op) {
            mc_core::machinery_error(&format!("divergence while replaying an accepted prefix: {k} {d}"));
        }
    }
    h
}

fn hist_json(init: Init, hist: &[Op]) -> J { json!({"init": format!("{init:?}"), "history": hist.iter().map(op_json).collect::<Vec<_>>()}) }

struct Expansion {
    succ:        Vec<(Op, Vec<u8>)>,
    transitions: u64,
    violations:  Vec<(String, J, J)>,
    nontrivial:  u64,
}

fn expand(init: Init, hist: &[Op], alpha: &[Op], max_iters: usize, fine: bool) -> Expansion {
    let base = build(init, hist, max_iters);
    let ops = base.enabled(alpha);
    drop(base);
    let mut out = Expansion { succ: vec![], transitions: 0, violations: vec![], nontrivial: 0 };
    for op in ops {
        let mut h = build(init, hist, max_iters);
        out.transitions += 1;
        let r = mc_core::catch(|| {
            let r = h.apply(op).and_then(|_| h.observe());
            (r, h)
        });
        let mut full = hist.to_vec();
        full.push(op);
        match r {
            Err(p) => out.violations.push(("panic".into(), hist_json(init, &full), json!({"panic": p}))),
            Ok((Err((kind, detail)), _)) => out.violations.push((kind, hist_json(init, &full), detail)),
            Ok((Ok(()), mut h)) => {
                if h.top_map().len() >= 2 {
                    out.nontrivial += 1;
                }
                out.succ.push((op, h.canon(fine)));
            }
        }
    }
    out
}

fn run_trie_property(cli: &Cli) -> ! {
    let report = Report::new(cli);
    let prop = cli.property.as_str();
    let max_iters = if prop == "C15" { 3 } else { 2 };
    // artefacts with a history (or an instance-level witness) are re-evaluated alone; any other
    // artefact is replayed by re-running the search with the witness as a filter (mc_core)
    let replay_doc = cli.replay.as_ref().map(|p| mc_core::load_replay(p));
    if let Some(doc) = replay_doc.as_ref().filter(|d| d["witness"].get("history").is_some() || (prop == "C15" && d["witness"].get("ops").is_some())) {
        let w = &doc["witness"];
        report.disable_replay_filter();
        if w.get("history").is_none() {
            instance::replay(&report, w);
        }
        let init = match w["init"].as_str() {
            Some("Memory") => Init::Memory,
            Some("Stored") => Init::Stored,
            _ => Init::Empty,
        };
        let hist: Vec<Op> = w["history"].as_array().map(|a| a.iter().filter_map(op_from_json).collect()).unwrap_or_default();
        let mut h = Harness::new(init);
        h.max_iters = max_iters;
        for (i, op) in hist.iter().enumerate() {
            let r = mc_core::catch(|| h.apply(*op).and_then(|_| h.observe()));
            println!("step {i}: {} -> {:?}", op_json(op), r.as_ref().map(|x| x.as_ref().map_err(|e| &e.0)));
            match r {
                Ok(Ok(())) => {}
                Ok(Err((k, d))) => {
                    report.violation(&k, w.clone(), d);
                    break;
                }
                Err(p) => {
                    report.violation("panic", w.clone(), json!({"panic": p}));
                    break;
                }
            }
        }
        report.finish(false, json!("replay"));
    }
    let alpha = alphabet(prop, cli.tier);
    let cap = Duration::from_secs(if cli.tier == Tier::Quick { 40 } else { 20 * 60 });
    let max_depth = if cli.tier == Tier::Quick { 5 } else { 9 };
    let start = Instant::now();
    let mut exhaustive = true;
    let mut bounds = vec![];
    // pass 1: exact structural dedup key, lower depth; pass 2: model+shape key, deeper
    let fine_depth = if cli.tier == Tier::Quick { 3 } else { 5 };
    for (fine, depth_limit, share) in [(true, fine_depth, 0.35f64), (false, max_depth, 1.0f64)] {
        for (ii, init) in [Init::Empty, Init::Memory, Init::Stored].into_iter().enumerate() {
            // self-test: the same history twice gives the same canonical state
            {
                let mut a = build(init, &alpha[..1], max_iters);
                let mut b = build(init, &alpha[..1], max_iters);
                if a.canon(true) != b.canon(true) || a.canon(false) != b.canon(false) {
                    mc_core::machinery_error("determinism self-test failed: equal histories give different canonical states");
                }
            }
            // each initial state gets an equal share of what is left of this pass's budget
            let pass_deadline = cap.mul_f64(share);
            let left = pass_deadline.saturating_sub(start.elapsed());
            let deadline = Instant::now() + left / (3 - ii as u32);
            let mut seen: HashSet<Vec<u8>> = HashSet::new();
            let mut frontier: Vec<Vec<Op>> = vec![vec![]];
            seen.insert(build(init, &[], max_iters).canon(fine));
            let mut states = 1u64;
            let mut transitions = 0u64;
            let mut completed_depth = 0usize;
            'levels: for depth in 1..=depth_limit {
                let mut next = vec![];
                for chunk in frontier.chunks(20_000) {
                    if Instant::now() > deadline {
                        exhaustive = false;
                        report.cap_hit(&format!("wall-clock share used up at depth {depth} from {init:?} ({} key)", if fine { "fine" } else { "coarse" }));
                        break 'levels;
                    }
                    let t0 = Instant::now();
                    let results: Vec<(Vec<Op>, Expansion)> = chunk.par_iter().with_max_len(8).map(|h| (h.clone(), expand(init, h, &alpha, max_iters, fine))).collect();
                    let t1 = Instant::now();
                    if std::env::var("MC_TIMING").is_ok() {
                        eprintln!("  chunk of {} expanded in {:.2}s", chunk.len(), (t1 - t0).as_secs_f64());
                    }
                    for (h, e) in results {
                        transitions += e.transitions;
                        report.nontrivial(e.nontrivial);
                        for (k, w, d) in e.violations {
                            report.violation(&k, w, d);
                        }
                        for (op, canon) in e.succ {
                            if seen.insert(canon) {
                                states += 1;
                                let mut nh = h.clone();
                                nh.push(op);
                                next.push(nh);
                            }
                        }
                    }
                }
                completed_depth = depth;
                eprintln!(
                    "[{prop} {init:?} {}] depth {depth}: states={states} frontier={} transitions={transitions} elapsed={:.1}s",
                    if fine { "fine" } else { "coarse" },
                    next.len(),
                    start.elapsed().as_secs_f64()
                );
                frontier = next;
                if report.violation_count() > 200 {
                    break;
                }
            }
            if let Some(h) = frontier.get(frontier.len() / 2) {
                report.sample(hist_json(init, h));
            }
            report.state(states);
            report.transition(transitions);
            report.trace(transitions);
            report.eval(transitions);
            bounds.push(json!({"init": format!("{init:?}"), "dedup_key": if fine { "exact structure" } else { "model + table sizes" },
                               "depth_completed": completed_depth, "depth_target": depth_limit, "states": states, "transitions": transitions}));
        }
    }
    if prop == "C04" {
        golden::check(&report);
        golden::insertion_orders(&report, cli.tier);
        golden::long_stems(&report, cli.tier);
    }
    // C15 has two more layers: the lock map alone, and the contract-visible InstanceState
    if prop == "C15" {
        prefixes::run(&report, cli.tier);
        instance::run(&report, cli.tier, start, cap);
    }
    // undeduplicated cross-check (guards against a wrong abstraction in the dedup key)
    if prop != "C15" {
        let d = if cli.tier == Tier::Quick { 3 } else { 4 };
        let (n, v) = dfs_no_dedup(&report, &alpha, d, max_iters);
        report.set_extra("undeduplicated_histories", json!(n));
        report.set_extra("undeduplicated_depth", json!(d));
        report.eval(n);
        report.transition(n);
        report.trace(n);
        let _ = v;
    }
    report.outcome("ok-steps", report.transitions.load(std::sync::atomic::Ordering::Relaxed));
    report.outcome("violating-steps", report.violation_count());
    report.set_technique("explicit-state breadth-first search over operation histories of the real trie (state = history, rebuilt by replay; dedup on the exact structural identity of the implementation state), every step compared with an ordered-map reference model and an independent hash implementation");
    report.set_rule("all histories up to the completed depth over the listed operation alphabet from three initial states (empty, thawed in-memory, thawed from backing store); after every step: operation result, point lookups, full ordered read-out and hash of every live generation and of the originating persistent state; a step is non-trivial if the resulting state holds at least two entries");
    report.assume("keys are drawn from a 7-element alphabet of mutually prefixing / splitting keys, values from {empty, 1 byte, 65 bytes}");
    report.assume("the stand-in for the slab crate (checked get_unchecked) behaves like the original");
    report.set_extra("alphabet_size", json!(alpha.len()));
    report.set_extra("bounds", json!(bounds));
    report.finish(exhaustive, json!(bounds));
}

/// Stateless DFS without deduplication over the content alphabet (no iterators).
fn dfs_no_dedup(report: &Report, alpha: &[Op], depth: usize, max_iters: usize) -> (u64, u64) {
    let alpha: Vec<Op> = alpha.iter().copied().filter(|o| !matches!(o, Op::Iter(_) | Op::Next(_) | Op::DelIter(_))).collect();
    let firsts: Vec<Op> = alpha.clone();
    let counts: Vec<(u64, u64)> = firsts
        .par_iter()
        .map(|first| {
            let mut n = 0u64;
            let mut v = 0u64;
            for init in [Init::Empty, Init::Stored] {
                let mut hist = vec![*first];
                fn go(init: Init, hist: &mut Vec<Op>, alpha: &[Op], depth: usize, n: &mut u64, v: &mut u64, report: &Report, max_iters: usize) {
                    // replay the whole history, checking every step (cheap at this depth)
                    let mut h = Harness::new(init);
                    h.max_iters = max_iters;
                    let mut enabled_ok = true;
                    for (i, op) in hist.iter().enumerate() {
                        if !h.enabled(&[*op]).contains(op) {
                            enabled_ok = false;
                            break;
                        }
                        let last = i + 1 == hist.len();
                        let r = mc_core::catch(|| {
                            let r = h.apply(*op);
                            if last {
                                r.and_then(|_| h.observe())
                            } else {
                                r
                            }
                        });
                        match r {
                            Ok(Ok(())) => {}
                            Ok(Err((k, d))) => {
                                if last {
                                    report.violation(&k, hist_json(init, hist), d);
                                    *v += 1;
                                }
                                enabled_ok = false;
                                break;
                            }
                            Err(p) => {
                                if last {
                                    report.violation("panic", hist_json(init, hist), json!({"panic": p}));
                                    *v += 1;
                                }
                                enabled_ok = false;
                                break;
                            }
                        }
                    }
                    if !enabled_ok {
                        return;
                    }
                    *n += 1;
                    if hist.len() >= depth {
                        return;
                    }
                    for op in alpha {
                        hist.push(*op);
                        go(init, hist, alpha, depth, n, v, report, max_iters);
                        hist.pop();
                    }
                }
                go(init, &mut hist, &alpha, depth, &mut n, &mut v, report, max_iters);
            }
            (n, v)
        })
        .collect();
    (counts.iter().map(|c| c.0).sum(), counts.iter().map(|c| c.1).sum())
}

fn main() {
    let cli = mc_core::parse_cli();
    mc_core::quiet_panics();
    if cli.extra.contains_key("write-golden") {
        golden::write();
        return;
    }
    match cli.property.as_str() {
        "C03" | "C04" | "C15" => run_trie_property(&cli),
        other => mc_core::machinery_error(&format!("mc-state does not serve property {other}")),
    }
}
