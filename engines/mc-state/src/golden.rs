//! C04: pinned vectors (data written by the pinned commit must keep loading to the same
//! contents and hash) and canonicity over every insertion order of every small key set.

use crate::model::{ref_hash, Key, Map, Val};
use concordium_smart_contract_engine::v1::trie::{EmptyCollector, Loadable, Loader, MutableState, PersistentState, Reference};
use mc_core::{Report, Tier};
use rayon::prelude::*;
use serde_json::{json, Value as J};

const GOLDEN: &str = "/verif/oracles/trie_golden.json";

fn fixed_states() -> Vec<Map> {
    let mut out = vec![];
    let mut m = Map::new();
    out.push(m.clone());
    m.insert(vec![], vec![1, 2, 3]);
    out.push(m.clone());
    m.insert(vec![0x12], vec![7]);
    m.insert(vec![0x12, 0x34], vec![9; 65]);
    m.insert(vec![0x12, 0x35], vec![]);
    out.push(m.clone());
    let mut m = Map::new();
    for i in 0u8..17 {
        m.insert(vec![0xA0 | (i & 0x0f), i], vec![i; (i as usize) * 5]);
    }
    m.insert(vec![0xA1, 1, 2, 3, 4, 5, 6, 7, 8, 9, 10, 11, 12, 13, 14, 15, 16, 17, 18, 19, 20, 21, 22, 23, 24, 25, 26, 27, 28, 29, 30, 31, 32, 33], vec![0xEE; 64]);
    out.push(m);
    out
}

fn build(m: &Map) -> PersistentState { PersistentState::from_iterator(m.iter().map(|(k, v)| (&k[..], v.clone()))) }

fn hash_of(p: &PersistentState, store: &[u8]) -> [u8; 32] {
    let mut l = Loader::new(store);
    let h = p.hash(&mut l);
    let mut o = [0u8; 32];
    o.copy_from_slice(h.as_ref());
    o
}

pub fn write() {
    let mut out = vec![];
    for m in fixed_states() {
        let mut p = build(&m);
        let mut ser = vec![];
        let empty: Vec<u8> = vec![];
        p.serialize(&mut Loader::new(&empty[..]), &mut ser).unwrap();
        let mut store: Vec<u8> = vec![];
        let r = p.store_update(&mut store).unwrap();
        let r: u64 = r.into();
        out.push(json!({
            "contents": m.iter().map(|(k, v)| json!([mc_core::hex(k), mc_core::hex(v)])).collect::<Vec<_>>(),
            "hash": mc_core::hex(&hash_of(&p, &store)),
            "serialized": mc_core::hex(&ser),
            "store": mc_core::hex(&store),
            "root_reference": r,
        }));
    }
    std::fs::write(GOLDEN, serde_json::to_vec_pretty(&json!(out)).unwrap()).unwrap();
    println!("wrote {GOLDEN}");
}

fn unhex(s: &str) -> Vec<u8> { (0..s.len()).step_by(2).map(|i| u8::from_str_radix(&s[i..i + 2], 16).unwrap()).collect() }

pub fn check(report: &Report) {
    let Ok(text) = std::fs::read_to_string(GOLDEN) else { mc_core::machinery_error("missing /verif/oracles/trie_golden.json") };
    let docs: Vec<J> = serde_json::from_str(&text).unwrap_or_else(|_| mc_core::machinery_error("bad golden file"));
    for (i, d) in docs.iter().enumerate() {
        let contents: Vec<(Key, Val)> = d["contents"].as_array().unwrap().iter().map(|kv| (unhex(kv[0].as_str().unwrap()), unhex(kv[1].as_str().unwrap()))).collect();
        let map: Map = contents.iter().cloned().collect();
        let want_hash = unhex(d["hash"].as_str().unwrap());
        let wit = json!({"golden_vector": i});
        // the pinned hash is the documented construction
        if ref_hash(&map)[..] != want_hash[..] {
            mc_core::machinery_error("golden file inconsistent with the reference hash");
        }
        report.eval(1);
        report.trace(1);
        let r = mc_core::catch(|| {
            // freshly built state hashes to the pinned value
            let fresh = build(&map);
            let empty: Vec<u8> = vec![];
            if hash_of(&fresh, &empty)[..] != want_hash[..] {
                return Err("hash of a freshly built state differs from the pinned hash".to_string());
            }
            // pinned serialisation loads
            let ser = unhex(d["serialized"].as_str().unwrap());
            let de = PersistentState::deserialize(&mut std::io::Cursor::new(&ser)).map_err(|e| format!("pinned serialisation does not deserialise: {e:#}"))?;
            if hash_of(&de, &empty)[..] != want_hash[..] {
                return Err("pinned serialisation deserialises to a different hash".into());
            }
            let got: Vec<(Key, Val)> = de.into_iterator(&mut Loader::new(&empty[..])).collect();
            if got != contents {
                return Err("pinned serialisation deserialises to different contents".into());
            }
            // pinned backing store loads
            let store = unhex(d["store"].as_str().unwrap());
            let reference: Reference = d["root_reference"].as_u64().unwrap().into();
            let mut l = Loader::new(&store[..]);
            let loaded = PersistentState::load_from_location(&mut l, reference).map_err(|e| format!("pinned store does not load: {e:?}"))?;
            if hash_of(&loaded, &store)[..] != want_hash[..] {
                return Err("pinned store loads to a different hash".into());
            }
            let got: Vec<(Key, Val)> = loaded.clone().into_iterator(&mut Loader::new(&store[..])).collect();
            if got != contents {
                return Err("pinned store loads to different contents".into());
            }
            // and can be modified and refrozen from there
            let mut ms: MutableState = loaded.thaw();
            {
                let inner = ms.get_inner(&mut l);
                let mut t = inner.lock();
                t.insert(&mut l, &[0xFF], vec![1]).map_err(|_| "insert refused".to_string())?;
                t.delete(&mut l, &[0xFF]).map_err(|_| "delete refused".to_string())?;
            }
            let again = ms.freeze(&mut l, &mut EmptyCollector);
            if hash_of(&again, &store)[..] != want_hash[..] {
                return Err("insert+delete on a loaded state changes the hash".into());
            }
            Ok(())
        });
        match r {
            Ok(Ok(())) => {}
            Ok(Err(e)) => report.violation("pinned-vector", wit, json!({"error": e})),
            Err(p) => report.violation("panic", wit, json!({"panic": p})),
        }
    }
    report.set_extra("golden_vectors", json!(docs.len()));
}

/// Every subset of an 8-key alphabet with at most `max` keys, built in EVERY insertion order
/// (and, for each order, once with an interleaved delete/re-insert of the first key): all
/// must hash to the reference hash of the contents.
pub fn insertion_orders(report: &Report, tier: Tier) {
    let ks: Vec<Key> = vec![
        vec![],
        vec![0x10],
        vec![0x11],
        vec![0x10, 0x00],
        vec![0x10, 0x01],
        vec![0x1F],
        vec![0x20, 0x00, 0x00],
        vec![0x10, 0x00, 0x7F],
    ];
    let max = if tier == Tier::Quick { 4 } else { 6 };
    let subsets: Vec<u32> = (1u32..(1 << ks.len())).filter(|m| m.count_ones() as usize <= max).collect();
    let counts: Vec<u64> = subsets
        .par_iter()
        .map(|&mask| {
            let sel: Vec<usize> = (0..ks.len()).filter(|i| mask >> i & 1 == 1).collect();
            let map: Map = sel.iter().map(|&i| (ks[i].clone(), if i % 2 == 0 { vec![i as u8] } else { vec![i as u8; 70] })).collect();
            let want = ref_hash(&map);
            let mut n = 0u64;
            // all permutations (Heap's algorithm)
            let mut perm = sel.clone();
            let mut c = vec![0usize; perm.len()];
            let mut check = |perm: &Vec<usize>| {
                for variant in 0..2 {
                    n += 1;
                    let empty: Vec<u8> = vec![];
                    let mut l = Loader::new(&empty[..]);
                    let mut ms = PersistentState::Empty.thaw();
                    {
                        let inner = ms.get_inner(&mut l);
                        let mut t = inner.lock();
                        for (j, &i) in perm.iter().enumerate() {
                            let _ = t.insert(&mut l, &ks[i], map[&ks[i]].clone());
                            if variant == 1 && j == perm.len() / 2 {
                                let f = perm[0];
                                let _ = t.delete(&mut l, &ks[f]);
                                let _ = t.insert(&mut l, &ks[f], map[&ks[f]].clone());
                            }
                        }
                    }
                    let p = ms.freeze(&mut l, &mut EmptyCollector);
                    let h = hash_of(&p, &empty);
                    if h != want {
                        report.violation(
                            "hash-depends-on-history",
                            json!({"keys": perm.iter().map(|&i| mc_core::hex(&ks[i])).collect::<Vec<_>>(), "variant": variant}),
                            json!({"expected": mc_core::hex(&want), "observed": mc_core::hex(&h)}),
                        );
                    }
                }
            };
            check(&perm);
            let mut i = 0;
            while i < perm.len() {
                if c[i] < i {
                    if i % 2 == 0 {
                        perm.swap(0, i);
                    } else {
                        perm.swap(c[i], i);
                    }
                    check(&perm);
                    c[i] += 1;
                    i = 0;
                } else {
                    c[i] = 0;
                    i += 1;
                }
            }
            n
        })
        .collect();
    let n: u64 = counts.iter().sum();
    report.eval(n);
    report.transition(n);
    report.trace(n);
    report.nontrivial(n);
    report.set_extra("insertion_order_builds", json!(n));
    report.set_extra("insertion_order_max_keys", json!(max));
}

/// Long stems: keys sharing a prefix of 30 .. 130 bytes (stems of 60 .. 260 nibbles: across the 6-bit
/// short-stem form, the one- and two-byte length forms and every bit of the length that shares the tag
/// byte with the has-value flag), with and without a value at the branch point, at the root and below it.
/// Each state is built, hashed against the reference construction, and sent through every persistence
/// path (store + load from the reference, serialise + deserialise, migrate, thaw + modify + freeze on the
/// loaded state); contents, point lookups and hash must survive each.
pub fn long_stems(report: &Report, tier: Tier) {
    let lens: Vec<usize> = if tier == Tier::Quick {
        vec![30, 31, 32, 33, 34, 47, 48, 62, 63, 64, 65, 95, 96, 97, 126, 127, 128, 129, 130]
    } else {
        (28..=132).collect()
    };
    let mut cases: Vec<(String, Map)> = vec![];
    for &l in &lens {
        let prefix: Vec<u8> = (0..l).map(|i| (i as u8).wrapping_mul(29).wrapping_add(3)).collect();
        for below_root in [false, true] {
            for branch_value in [false, true] {
                for odd in [false, true] {
                    let mut m = Map::new();
                    let base: Vec<u8> = if below_root { [&[0x0Au8][..], &prefix[..]].concat() } else { prefix.clone() };
                    if below_root {
                        m.insert(vec![0xF0], vec![1]);
                    }
                    // two keys that part after the shared prefix: at a byte boundary, or in the middle of a byte
                    let (a, b) = if odd { (0x50u8, 0x5Fu8) } else { (0x00u8, 0x10u8) };
                    m.insert([&base[..], &[a]].concat(), vec![2; 3]);
                    m.insert([&base[..], &[b, 0x77]].concat(), vec![3; 70]);
                    if branch_value && !odd {
                        m.insert(base.clone(), vec![4]);
                    }
                    cases.push((format!("shared prefix {l} bytes, below_root={below_root}, value at the branch={branch_value}, parts inside a byte={odd}"), m));
                }
            }
        }
    }
    let n = cases.len() as u64;
    cases.par_iter().for_each(|(name, map)| {
        let wit = json!({"long_stems": name});
        let contents: Vec<(Key, Val)> = map.iter().map(|(k, v)| (k.clone(), v.clone())).collect();
        let want = ref_hash(map);
        let r = mc_core::catch(|| -> Result<(), String> {
            let empty: Vec<u8> = vec![];
            let verify = |p: &PersistentState, store: &[u8], what: &str| -> Result<(), String> {
                if hash_of(p, store) != want {
                    return Err(format!("{what}: hash differs from the reference construction"));
                }
                let got: Vec<(Key, Val)> = p.clone().into_iterator(&mut Loader::new(store)).collect();
                if got != contents {
                    return Err(format!("{what}: contents differ ({} entries instead of {})", got.len(), contents.len()));
                }
                for (k, v) in &contents {
                    if p.lookup(&mut Loader::new(store), k).as_ref() != Some(v) {
                        return Err(format!("{what}: lookup of {} differs", mc_core::hex(k)));
                    }
                }
                Ok(())
            };
            let mut fresh = build(map);
            verify(&fresh, &empty, "freshly built")?;
            // built by insertion in reverse order as well
            {
                let mut l = Loader::new(&empty[..]);
                let mut ms = PersistentState::Empty.thaw();
                {
                    let inner = ms.get_inner(&mut l);
                    let mut t = inner.lock();
                    for (k, v) in contents.iter().rev() {
                        t.insert(&mut l, k, v.clone()).map_err(|_| "insert refused".to_string())?;
                    }
                }
                let p = ms.freeze(&mut l, &mut EmptyCollector);
                verify(&p, &empty, "built by insertion")?;
            }
            let mut ser = vec![];
            fresh.serialize(&mut Loader::new(&empty[..]), &mut ser).map_err(|e| format!("serialize: {e:#}"))?;
            let de = PersistentState::deserialize(&mut std::io::Cursor::new(&ser)).map_err(|e| format!("own serialisation does not deserialise: {e:#}"))?;
            verify(&de, &empty, "deserialised")?;
            let mut store: Vec<u8> = vec![];
            let reference = fresh.store_update(&mut store).map_err(|e| format!("store_update: {e:?}"))?;
            let mut loaded = PersistentState::load_from_location(&mut Loader::new(&store[..]), reference).map_err(|e| format!("own store does not load: {e:?}"))?;
            verify(&loaded, &store, "stored and loaded")?;
            let mut new_store: Vec<u8> = vec![];
            let migrated = loaded.migrate(&mut new_store, &mut Loader::new(&store[..])).map_err(|e| format!("migrate: {e:?}"))?;
            verify(&migrated, &new_store, "migrated")?;
            // the loaded state can be modified and refrozen: a key that parts half way along the long stem
            let mut l = Loader::new(&store[..]);
            let mut ms: MutableState = loaded.thaw();
            let longest = contents.iter().map(|(k, _)| k.clone()).max_by_key(|k| k.len()).unwrap();
            let mut half = longest[..longest.len() / 2].to_vec();
            half.push(0xEE);
            {
                let inner = ms.get_inner(&mut l);
                let mut t = inner.lock();
                t.insert(&mut l, &half, vec![9]).map_err(|_| "insert refused".to_string())?;
            }
            let mut with = ms.freeze(&mut l, &mut EmptyCollector);
            let mut bigger = map.clone();
            bigger.insert(half.clone(), vec![9]);
            if hash_of(&with, &store) != ref_hash(&bigger) {
                return Err("loaded + one insertion half way along the stem: hash differs from the reference".into());
            }
            let mut store2 = store.clone();
            let r2 = with.store_update(&mut store2).map_err(|e| format!("store_update: {e:?}"))?;
            let again = PersistentState::load_from_location(&mut Loader::new(&store2[..]), r2).map_err(|e| format!("modified store does not load: {e:?}"))?;
            let got: Vec<(Key, Val)> = again.into_iterator(&mut Loader::new(&store2[..])).collect();
            if got != bigger.iter().map(|(k, v)| (k.clone(), v.clone())).collect::<Vec<_>>() {
                return Err("loaded + insertion, stored and loaded again: contents differ".into());
            }
            Ok(())
        });
        match r {
            Ok(Ok(())) => {}
            Ok(Err(e)) => report.violation("long-stem-persistence", wit, json!({"error": e})),
            Err(p) => report.violation("panic", wit, json!({"panic": p})),
        }
    });
    report.eval(n);
    report.transition(n * 6);
    report.trace(n * 6);
    report.nontrivial(n);
    report.set_extra("long_stem_states", json!(n));
}
