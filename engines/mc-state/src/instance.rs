//! C15 layer 3: the contract-visible `InstanceState` (the implementation behind the
//! `state_*` host functions): entry handles, iterator handles, generation counters,
//! interrupts with and without a state change. Explicit-state search over operation
//! histories against a reference model of the documented host interface.

use crate::model::{Key, Map, Val};
use concordium_smart_contract_engine::{
    v1::{
        trie::{Loader, MutableState, PersistentState},
        InstanceState,
    },
    InterpreterEnergy,
};
use mc_core::{Report, Tier};
use rayon::prelude::*;
use serde_json::{json, Value as J};
use std::{
    collections::{BTreeMap, HashSet},
    time::{Duration, Instant},
};

const NONE: u64 = u64::MAX;
const ERR: u64 = u64::MAX & !(1u64 << 62);
const INVALID: u32 = u32::MAX;

fn keys() -> Vec<Key> { vec![vec![0x12], vec![0x12, 0x34], vec![0x12, 0x35], vec![0x13], vec![]] }

#[derive(Clone, Copy, Debug, PartialEq, Eq, Hash)]
pub enum IOp {
    Lookup(usize),
    Create(usize),
    Delete(usize),
    DeletePrefix(usize),
    Iterate(usize),
    IterNext(usize),
    IterDelete(usize),
    IterKey(usize),
    EntryRead(usize),
    EntryWrite(usize),
    EntryResize(usize, u32),
    /// an interrupt during which nothing happened to this contract's state
    InterruptNoChange,
    /// an interrupt during which a nested invocation modified the state and was rolled back
    InterruptRolledBack,
    /// an interrupt during which a nested invocation modified the state and committed
    InterruptCommitted,
    /// use of a handle that was never handed out
    ForeignEntry,
    ForeignIterator,
}

fn iop_json(op: &IOp) -> J { json!(format!("{op:?}")) }

#[derive(Clone, Debug)]
struct MEntry {
    inc: u64,
    val: Val,
}

#[derive(Clone, Debug)]
struct MHandle {
    gen: u32,
    key: Key,
    inc: u64,
}

#[derive(Clone, Debug)]
struct MIt {
    gen:     u32,
    root:    Key,
    keys:    Vec<(Key, u64)>,
    pos:     usize,
    current: Option<Key>,
    deleted: bool,
}

#[derive(Clone, Debug, Default)]
struct IModel {
    map:      BTreeMap<Key, MEntry>,
    next_inc: u64,
    gen:      u32,
    locks:    Vec<Key>,
    handles:  Vec<MHandle>,
    iters:    Vec<MIt>,
}

impl IModel {
    fn locked(&self, key: &[u8]) -> bool { self.locks.iter().any(|p| key.starts_with(p)) }

    fn prefix_locked(&self, p: &[u8]) -> bool { self.locks.iter().any(|l| p.starts_with(l) || l.starts_with(p)) }

    fn handle_valid(&self, h: usize) -> Option<&MHandle> {
        let hd = self.handles.get(h)?;
        if hd.gen != self.gen {
            return None;
        }
        match self.map.get(&hd.key) {
            Some(e) if e.inc == hd.inc => Some(hd),
            _ => None,
        }
    }

    fn new_handle(&mut self, key: &Key) -> u64 {
        let inc = self.map[key].inc;
        // after an interrupt with a state change the handle table starts afresh
        self.handles.push(MHandle { gen: self.gen, key: key.clone(), inc });
        ((self.gen as u64) << 32) | (self.handles_in_gen() - 1) as u64
    }

    fn handles_in_gen(&self) -> usize { self.handles.iter().filter(|h| h.gen == self.gen).count() }

    fn contents(&self) -> Map { self.map.iter().map(|(k, e)| (k.clone(), e.val.clone())).collect() }
}

type Violation = (String, J);

/// The harness keeps, for every model handle index, the raw u64 the implementation handed out.
struct Run {
    model:       IModel,
    raw_handles: Vec<u64>,
    raw_iters:   Vec<u64>,
}

fn nested_modification(ms: &mut MutableState, loader: &mut Loader<&[u8]>) {
    let inner = ms.get_inner(loader);
    let mut t = inner.lock();
    // touches keys under typical iterator prefixes: new sibling, deletion, overwrite
    let _ = t.insert(loader, &[0x12, 0x36], vec![0x66]);
    let _ = t.delete(loader, &[0x12, 0x34]);
    let _ = t.insert(loader, &[0x13], vec![0x77; 3]);
}

fn model_nested_modification(m: &mut IModel) {
    let inc = m.next_inc;
    m.next_inc += 3;
    m.map.insert(vec![0x12, 0x36], MEntry { inc, val: vec![0x66] });
    m.map.remove(&vec![0x12, 0x34]);
    m.map.insert(vec![0x13], MEntry { inc: inc + 1, val: vec![0x77; 3] });
}

/// Execute a whole history on the implementation and the model, comparing after every step.
/// Returns the canonical form of the final state.
pub fn run_history(hist: &[IOp], from_stored: bool) -> Result<Vec<u8>, (usize, Violation)> {
    let ks = keys();
    let mut store: Vec<u8> = Vec::new();
    let init: Vec<(Key, Val)> = vec![(vec![0x12], vec![1]), (vec![0x12, 0x34], vec![2, 2]), (vec![0x13], vec![])];
    let mut persistent = PersistentState::from_iterator(init.iter().map(|(k, v)| (&k[..], v.clone())));
    if from_stored {
        use concordium_smart_contract_engine::v1::trie::Loadable;
        let r = persistent.store_update(&mut store).expect("store");
        let mut l = Loader::new(&store[..]);
        persistent = PersistentState::load_from_location(&mut l, r).expect("load");
    }
    let store_ref: &[u8] = &store[..];
    let mut run = Run { model: IModel::default(), raw_handles: vec![], raw_iters: vec![] };
    for (k, v) in &init {
        let inc = run.model.next_inc;
        run.model.next_inc += 1;
        run.model.map.insert(k.clone(), MEntry { inc, val: v.clone() });
    }
    // the chain of mutable states: `states.last()` is the one the instance currently runs on
    let mut parent: MutableState = persistent.thaw();
    let mut loader = Loader::new(store_ref);
    let inner0 = parent.get_inner(&mut loader).clone();
    // Safety of lifetimes: InstanceState borrows the MutableStateInner; we keep all inners
    // alive in this vector for the whole function.
    let mut inners: Vec<Box<concordium_smart_contract_engine::v1::trie::MutableStateInner>> = vec![Box::new(inner0)];
    let mut energy = InterpreterEnergy::new(1_000_000_000);
    let mut inst: Option<InstanceState<Loader<&[u8]>>> = None;
    // SAFETY: the boxes in `inners` are never dropped or moved out before `inst` is dropped
    // at the end of this function (the vector only grows).
    let inner_ref = |inners: &Vec<Box<concordium_smart_contract_engine::v1::trie::MutableStateInner>>, i: usize| -> &'static concordium_smart_contract_engine::v1::trie::MutableStateInner {
        unsafe { &*(&*inners[i] as *const _) }
    };
    inst.replace(InstanceState::new(Loader::new(store_ref), inner_ref(&inners, 0)));
    let mut current_state: MutableState = parent;

    for (step, op) in hist.iter().enumerate() {
        let bad = |what: &str, exp: J, got: J| -> (usize, Violation) { (step, (what.to_string(), json!({"op": iop_json(op), "expected": exp, "observed": got}))) };
        if !op_enabled(op, run.raw_handles.len(), run.raw_iters.len()) {
            return Err((step, ("not-enabled".to_string(), json!(null))));
        }
        let st = inst.as_mut().unwrap();
        let m = &mut run.model;
        match *op {
            IOp::Lookup(k) => {
                let key = &ks[k];
                let got = st.verif_lookup_entry(key);
                let exp = if m.map.contains_key(key) { m.new_handle(key) } else { NONE };
                if exp != NONE {
                    run.raw_handles.push(got);
                }
                if got != exp {
                    return Err(bad("lookup-entry", json!(exp), json!(got)));
                }
            }
            IOp::Create(k) => {
                let key = &ks[k];
                let got = st.verif_create_entry(key).map_err(|e| bad("create-entry-error", json!(null), json!(format!("{e:#}"))))?;
                let exp = if m.locked(key) {
                    NONE
                } else {
                    match m.map.get_mut(key) {
                        Some(e) => e.val = vec![],
                        None => {
                            let inc = m.next_inc;
                            m.next_inc += 1;
                            m.map.insert(key.clone(), MEntry { inc, val: vec![] });
                        }
                    }
                    m.new_handle(key)
                };
                if exp != NONE {
                    run.raw_handles.push(got);
                }
                if got != exp {
                    return Err(bad("create-entry", json!(exp), json!(got)));
                }
            }
            IOp::Delete(k) => {
                let key = &ks[k];
                let got = st.verif_delete_entry(key).map_err(|e| bad("delete-entry-error", json!(null), json!(format!("{e:#}"))))?;
                let exp = if m.locked(key) {
                    0
                } else if m.map.remove(key).is_some() {
                    2
                } else {
                    1
                };
                if got != exp {
                    return Err(bad("delete-entry", json!(exp), json!(got)));
                }
            }
            IOp::DeletePrefix(k) => {
                let key = &ks[k];
                let got = st.verif_delete_prefix(&mut energy, key).map_err(|e| bad("delete-prefix-error", json!(null), json!(format!("{e:#}"))))?;
                let exp = if m.map.is_empty() {
                    1
                } else if m.prefix_locked(key) {
                    0
                } else {
                    let under: Vec<Key> = m.map.keys().filter(|x| x.starts_with(key)).cloned().collect();
                    for u in &under {
                        m.map.remove(u);
                    }
                    if under.is_empty() {
                        1
                    } else {
                        2
                    }
                };
                if got != exp {
                    return Err(bad("delete-prefix", json!(exp), json!(got)));
                }
            }
            IOp::Iterate(k) => {
                let key = &ks[k];
                let got = st.verif_iterator(key);
                let under: Vec<(Key, u64)> = m.map.iter().filter(|(x, _)| x.starts_with(key)).map(|(x, e)| (x.clone(), e.inc)).collect();
                let exp = if under.is_empty() {
                    NONE
                } else {
                    let idx = m.iters.iter().filter(|i| i.gen == m.gen).count();
                    m.locks.push(key.clone());
                    m.iters.push(MIt { gen: m.gen, root: key.clone(), keys: under, pos: 0, current: None, deleted: false });
                    run.raw_iters.push(got);
                    ((m.gen as u64) << 32) | idx as u64
                };
                if got != exp {
                    return Err(bad("iterate-prefix", json!(exp), json!(got)));
                }
            }
            IOp::IterNext(i) => {
                let raw = run.raw_iters[i];
                let got = st.verif_iterator_next(&mut energy, raw).map_err(|e| bad("iterator-next-error", json!(null), json!(format!("{e:#}"))))?;
                let gen = m.gen;
                let it = &mut m.iters[i];
                if it.gen != gen || it.deleted {
                    if got != ERR {
                        return Err(bad("stale-iterator-not-invalid", json!(ERR), json!(got)));
                    }
                } else if it.pos < it.keys.len() {
                    let (key, _) = it.keys[it.pos].clone();
                    it.pos += 1;
                    it.current = Some(key.clone());
                    let exp = m.new_handle(&key);
                    run.raw_handles.push(got);
                    if got != exp {
                        return Err(bad("iterator-next", json!(exp), json!(got)));
                    }
                } else if got != NONE {
                    return Err(bad("iterator-next-exhausted", json!(NONE), json!(got)));
                }
            }
            IOp::IterDelete(i) => {
                let raw = run.raw_iters[i];
                let got = st.verif_iterator_delete(&mut energy, raw).map_err(|e| bad("iterator-delete-error", json!(null), json!(format!("{e:#}"))))?;
                let gen = m.gen;
                let it = &mut m.iters[i];
                let exp = if it.gen != gen {
                    INVALID
                } else if it.deleted {
                    0
                } else {
                    it.deleted = true;
                    let root = it.root.clone();
                    if let Some(p) = m.locks.iter().position(|x| *x == root) {
                        m.locks.remove(p);
                    }
                    1
                };
                if got != exp {
                    return Err(bad("iterator-delete", json!(exp), json!(got)));
                }
            }
            IOp::IterKey(i) => {
                let raw = run.raw_iters[i];
                let got_size = st.verif_iterator_key_size(raw);
                let mut buf = [0u8; 8];
                let got_read = st.verif_iterator_key_read(raw, &mut buf, 1);
                let it = &m.iters[i];
                let (exp_size, exp_read, exp_bytes) = if it.gen != m.gen || it.deleted {
                    (INVALID, INVALID, vec![])
                } else {
                    let key = it.current.clone().unwrap_or_else(|| it.root.clone());
                    let tail: Vec<u8> = key.iter().skip(1).copied().collect();
                    (key.len() as u32, tail.len() as u32, tail)
                };
                if got_size != exp_size || got_read != exp_read || (exp_read != INVALID && buf[..exp_bytes.len()] != exp_bytes[..]) {
                    return Err(bad("iterator-key", json!([exp_size, exp_read, exp_bytes]), json!([got_size, got_read, buf])));
                }
            }
            IOp::EntryRead(h) => {
                let raw = run.raw_handles[h];
                let mut buf = [0xEEu8; 8];
                let got = st.verif_entry_read(raw, &mut buf, 1);
                let got_size = st.verif_entry_size(raw);
                match m.handle_valid(h) {
                    None => {
                        if got != INVALID || got_size != INVALID || buf != [0xEE; 8] {
                            return Err(bad("stale-entry-handle-not-invalid", json!(INVALID), json!([got, got_size, buf])));
                        }
                    }
                    Some(hd) => {
                        let v = &m.map[&hd.key].val;
                        let tail: Vec<u8> = v.iter().skip(1).take(8).copied().collect();
                        if got != tail.len() as u32 || got_size != v.len() as u32 || buf[..tail.len()] != tail[..] {
                            return Err(bad("entry-read", json!([tail.len(), v.len(), tail]), json!([got, got_size, buf])));
                        }
                    }
                }
            }
            IOp::EntryWrite(h) => {
                let raw = run.raw_handles[h];
                let data = [0xA1u8, 0xA2, 0xA3];
                let got = st.verif_entry_write(&mut energy, raw, &data, 1).map_err(|e| bad("entry-write-error", json!(null), json!(format!("{e:#}"))))?;
                match m.handle_valid(h).cloned() {
                    None => {
                        if got != INVALID {
                            return Err(bad("stale-entry-handle-not-invalid", json!(INVALID), json!(got)));
                        }
                    }
                    Some(hd) => {
                        let v = &mut m.map.get_mut(&hd.key).unwrap().val;
                        let exp = if 1 <= v.len() {
                            if v.len() < 4 {
                                v.resize(4, 0);
                            }
                            v[1..4].copy_from_slice(&data);
                            3
                        } else {
                            0
                        };
                        if got != exp {
                            return Err(bad("entry-write", json!(exp), json!(got)));
                        }
                    }
                }
            }
            IOp::EntryResize(h, n) => {
                let raw = run.raw_handles[h];
                let got = st.verif_entry_resize(&mut energy, raw, n).map_err(|e| bad("entry-resize-error", json!(null), json!(format!("{e:#}"))))?;
                match m.handle_valid(h).cloned() {
                    None => {
                        if got != INVALID {
                            return Err(bad("stale-entry-handle-not-invalid", json!(INVALID), json!(got)));
                        }
                    }
                    Some(hd) => {
                        m.map.get_mut(&hd.key).unwrap().val.resize(n as usize, 0);
                        if got != 1 {
                            return Err(bad("entry-resize", json!(1), json!(got)));
                        }
                    }
                }
            }
            IOp::ForeignEntry => {
                for raw in [((m.gen as u64) << 32) | 9999, (((m.gen + 1) as u64) << 32), u64::MAX, ERR] {
                    let mut buf = [0xEEu8; 4];
                    let r = st.verif_entry_read(raw, &mut buf, 0);
                    let s = st.verif_entry_size(raw);
                    let w = st.verif_entry_write(&mut energy, raw, &[1], 0).map_err(|e| bad("entry-write-error", json!(null), json!(format!("{e:#}"))))?;
                    let z = st.verif_entry_resize(&mut energy, raw, 2).map_err(|e| bad("entry-resize-error", json!(null), json!(format!("{e:#}"))))?;
                    if r != INVALID || s != INVALID || w != INVALID || z != INVALID || buf != [0xEE; 4] {
                        return Err(bad("foreign-entry-handle-not-invalid", json!(INVALID), json!([raw, r, s, w, z])));
                    }
                }
            }
            IOp::ForeignIterator => {
                for raw in [((m.gen as u64) << 32) | 9999, (((m.gen + 1) as u64) << 32), u64::MAX, ERR] {
                    let n = st.verif_iterator_next(&mut energy, raw).map_err(|e| bad("iterator-next-error", json!(null), json!(format!("{e:#}"))))?;
                    let d = st.verif_iterator_delete(&mut energy, raw).map_err(|e| bad("iterator-delete-error", json!(null), json!(format!("{e:#}"))))?;
                    let s = st.verif_iterator_key_size(raw);
                    if n != ERR || d != INVALID || s != INVALID {
                        return Err(bad("foreign-iterator-handle-not-invalid", json!([ERR, INVALID, INVALID]), json!([raw, n, d, s])));
                    }
                }
            }
            IOp::InterruptNoChange | IOp::InterruptRolledBack | IOp::InterruptCommitted => {
                // suspend: take the instance apart (this releases the lock on the trie)
                let suspended = inst.take().unwrap();
                let committed = matches!(op, IOp::InterruptCommitted);
                // The hook needs the MutableStateInner to resume on before it can rebuild the
                // instance, and the nested invocation has to run while the instance is
                // suspended; `verif_migrate` does both steps at once, so split it manually:
                // first suspend into its parts by migrating onto the same inner with
                // state_updated = false AFTER the nested call has run.
                // 1. release the trie lock by dropping the instance but keeping its tables
                let parts = suspended.verif_suspend();
                // 2. the nested invocation
                let mut l = Loader::new(store_ref);
                match op {
                    IOp::InterruptNoChange => {}
                    IOp::InterruptRolledBack => {
                        let mut child = current_state.make_fresh_generation(&mut l);
                        nested_modification(&mut child, &mut l);
                        drop(child);
                    }
                    _ => {
                        let mut child = current_state.make_fresh_generation(&mut l);
                        nested_modification(&mut child, &mut l);
                        // the node continues on the new generation
                        current_state = child;
                        model_nested_modification(m);
                    }
                }
                // 3. resume
                let inner = current_state.get_inner(&mut l).clone();
                inners.push(Box::new(inner));
                let ir = inner_ref(&inners, inners.len() - 1);
                inst.replace(InstanceState::verif_resume(parts, committed, Loader::new(store_ref), ir));
                if committed {
                    m.gen += 1;
                    m.locks.clear();
                }
            }
        }
        // after every step: the full contents as seen through fresh lookups
        let st = inst.as_mut().unwrap();
        let gen_ok = st.verif_generation() == run.model.gen;
        if !gen_ok {
            return Err((step, ("generation-counter".into(), json!({"expected": run.model.gen, "observed": st.verif_generation()}))));
        }
    }
    // final full read-out through the trie (drop the instance first to release the lock)
    drop(inst.take());
    let mut l = Loader::new(store_ref);
    let frozen = current_state.freeze(&mut l, &mut concordium_smart_contract_engine::v1::trie::EmptyCollector);
    let got: Vec<(Key, Val)> = frozen.into_iterator(&mut l).collect();
    let want: Vec<(Key, Val)> = run.model.contents().into_iter().collect();
    if got != want {
        return Err((hist.len().saturating_sub(1), ("contents-differ".into(), json!({"expected": format!("{want:?}"), "observed": format!("{got:?}")}))));
    }
    let m = &run.model;
    let canon = format!(
        "{:?}|{}|{:?}|{:?}|{:?}",
        m.map.iter().map(|(k, e)| (k.clone(), e.val.clone())).collect::<Vec<_>>(),
        m.gen,
        m.locks,
        m.handles.iter().map(|h| (h.gen, h.key.clone(), m.map.get(&h.key).map(|e| e.inc == h.inc))).collect::<Vec<_>>(),
        m.iters.iter().map(|i| (i.gen, i.root.clone(), i.pos, i.deleted)).collect::<Vec<_>>()
    );
    Ok(mc_core::sha256(canon.as_bytes()).to_vec())
}

fn enabled(hist: &[IOp], alpha: &[IOp]) -> Vec<IOp> {
    // count handles / iterators handed out so far by a cheap abstract replay: the number of
    // raw handles equals the number of successful lookups/creates/nexts, which depends on the
    // state; instead of duplicating the model here, allow handle indices below a bound that
    // the run itself validates (an index beyond the table is skipped by the runner).
    let _ = hist;
    alpha.to_vec()
}

fn alphabet(tier: Tier) -> Vec<IOp> {
    let mut a = vec![
        IOp::Lookup(0),
        IOp::Lookup(1),
        IOp::Create(2),
        IOp::Create(1),
        IOp::Delete(1),
        IOp::Delete(0),
        IOp::DeletePrefix(0),
        IOp::Iterate(0),
        IOp::Iterate(4),
        IOp::IterNext(0),
        IOp::IterDelete(0),
        IOp::IterKey(0),
        IOp::EntryRead(0),
        IOp::EntryWrite(0),
        IOp::EntryRead(1),
        IOp::InterruptNoChange,
        IOp::InterruptRolledBack,
        IOp::InterruptCommitted,
        IOp::ForeignEntry,
        IOp::ForeignIterator,
    ];
    if tier == Tier::Thorough {
        a.extend([
            IOp::Lookup(3),
            IOp::Create(0),
            IOp::Delete(2),
            IOp::DeletePrefix(4),
            IOp::Iterate(1),
            IOp::IterNext(1),
            IOp::IterDelete(1),
            IOp::EntryResize(0, 0),
            IOp::EntryResize(0, 5),
            IOp::EntryWrite(1),
            IOp::EntryRead(2),
        ]);
    }
    a
}

/// An operation that refers to a handle / iterator index that has not been handed out yet is
/// not enabled.
fn op_enabled(op: &IOp, n_handles: usize, n_iters: usize) -> bool {
    match op {
        IOp::IterNext(i) | IOp::IterDelete(i) | IOp::IterKey(i) => *i < n_iters,
        IOp::EntryRead(h) | IOp::EntryWrite(h) | IOp::EntryResize(h, _) => *h < n_handles,
        _ => true,
    }
}

pub fn run(report: &Report, tier: Tier, start: Instant, cap: Duration) {
    let alpha = alphabet(tier);
    let max_depth = if tier == Tier::Quick { 6 } else { 8 };
    let mut total_states = 0u64;
    let mut total_transitions = 0u64;
    let mut bounds = vec![];
    for from_stored in [false, true] {
        let mut seen: HashSet<Vec<u8>> = HashSet::new();
        let mut frontier: Vec<Vec<IOp>> = vec![vec![]];
        let mut completed = 0;
        for depth in 1..=max_depth {
            if start.elapsed() > cap {
                report.cap_hit(&format!("InstanceState layer: wall-clock cap before depth {depth}"));
                break;
            }
            let results: Vec<Vec<(Vec<IOp>, Result<Vec<u8>, (usize, Violation)>)>> = frontier
                .par_iter()
                .with_max_len(8)
                .map(|h| {
                    let mut out = vec![];
                    for op in enabled(h, &alpha) {
                        let mut nh = h.clone();
                        nh.push(op);
                        let r = match mc_core::catch(|| run_history(&nh, from_stored)) {
                            Ok(Err((_, (k, _)))) if k == "not-enabled" => continue,
                            Ok(r) => r,
                            Err(p) => Err((nh.len() - 1, ("panic".to_string(), json!({"panic": p})))),
                        };
                        out.push((nh, r));
                    }
                    out
                })
                .collect();
            let mut next = vec![];
            for (nh, r) in results.into_iter().flatten() {
                total_transitions += 1;
                match r {
                    Ok(canon) => {
                        if seen.insert(canon) {
                            total_states += 1;
                            next.push(nh);
                        }
                    }
                    Err((step, (kind, detail))) => {
                        report.violation(&kind, json!({"layer": "instance-state", "from_stored": from_stored, "ops": nh.iter().map(iop_json).collect::<Vec<_>>()}), json!({"step": step, "detail": detail}));
                    }
                }
            }
            completed = depth;
            eprintln!("[C15 instance stored={from_stored}] depth {depth}: states={total_states} frontier={} transitions={total_transitions} elapsed={:.1}s", next.len(), start.elapsed().as_secs_f64());
            frontier = next;
        }
        if let Some(h) = frontier.get(frontier.len() / 2) {
            report.sample(json!({"instance_state_history": h.iter().map(iop_json).collect::<Vec<_>>()}));
        }
        bounds.push(json!({"from_stored": from_stored, "depth_completed": completed}));
    }
    report.state(total_states);
    report.transition(total_transitions);
    report.trace(total_transitions);
    report.eval(total_transitions);
    report.nontrivial(total_states);
    report.set_extra("instance_state_bounds", json!(bounds));
    report.set_extra("instance_state_alphabet", json!(alpha.len()));
}

pub fn replay(report: &Report, w: &J) -> ! {
    println!("replaying {w}");
    let from_stored = w["from_stored"].as_bool().unwrap_or(false);
    let names: Vec<String> = w["ops"].as_array().map(|a| a.iter().filter_map(|x| x.as_str().map(|s| s.to_string())).collect()).unwrap_or_default();
    let all = alphabet(Tier::Thorough);
    let ops: Vec<IOp> = names.iter().filter_map(|n| all.iter().copied().find(|o| format!("{o:?}") == *n)).collect();
    match mc_core::catch(|| run_history(&ops, from_stored)) {
        Ok(Ok(_)) => println!("history ok"),
        Ok(Err((step, (k, d)))) => {
            println!("violation at step {step}: {k} {d}");
            report.violation(&k, w.clone(), d);
        }
        Err(p) => report.violation("panic", w.clone(), json!({"panic": p})),
    }
    report.finish(false, json!("replay"));
}
