use proc_macro::TokenStream;
use quote::quote;
use syn::{parse_macro_input, DeriveInput, Data};

fn repr_of(input: &DeriveInput) -> syn::Ident {
    for a in &input.attrs {
        if a.path().is_ident("repr") {
            if let Ok(id) = a.parse_args::<syn::Ident>() { return id; }
        }
    }
    syn::Ident::new("u8", proc_macro2::Span::call_site())
}

#[proc_macro_derive(TryFromPrimitive, attributes(num_enum))]
pub fn try_from_primitive(input: TokenStream) -> TokenStream {
    let input = parse_macro_input!(input as DeriveInput);
    let name = &input.ident;
    let repr = repr_of(&input);
    let variants: Vec<_> = match &input.data { Data::Enum(e) => e.variants.iter().map(|v| v.ident.clone()).collect(), _ => panic!("enum only") };
    let out = quote! {
        impl ::core::convert::TryFrom<#repr> for #name {
            type Error = #repr;
            #[allow(non_upper_case_globals)]
            fn try_from(x: #repr) -> ::core::result::Result<Self, #repr> {
                #( if x == (#name::#variants as #repr) { return Ok(#name::#variants); } )*
                Err(x)
            }
        }
    };
    out.into()
}

#[proc_macro_derive(IntoPrimitive, attributes(num_enum))]
pub fn into_primitive(input: TokenStream) -> TokenStream {
    let input = parse_macro_input!(input as DeriveInput);
    let name = &input.ident;
    let repr = repr_of(&input);
    let out = quote! {
        impl ::core::convert::From<#name> for #repr { fn from(x: #name) -> #repr { x as #repr } }
    };
    out.into()
}
