//! placeholder API-compatible stub (feasibility experiment only)
#[derive(Debug, Clone, Copy, PartialEq, Eq)] pub enum Error { Invalid }
impl std::fmt::Display for Error { fn fmt(&self, f: &mut std::fmt::Formatter<'_>) -> std::fmt::Result { write!(f, "secp256k1 error") } }
impl std::error::Error for Error {}
pub struct Secp256k1<C>(std::marker::PhantomData<C>);
pub struct VerifyOnly; pub struct All;
impl Secp256k1<VerifyOnly> { pub fn verification_only() -> Self { Secp256k1(std::marker::PhantomData) } }
impl Secp256k1<All> { pub fn new() -> Self { Secp256k1(std::marker::PhantomData) } }
pub struct Message([u8; 32]);
impl Message { pub fn from_slice(b: &[u8]) -> Result<Self, Error> { b.try_into().map(Message).map_err(|_| Error::Invalid) } }
pub struct PublicKey(Vec<u8>);
impl PublicKey { pub fn from_slice(b: &[u8]) -> Result<Self, Error> { if b.len() == 33 || b.len() == 65 { Ok(PublicKey(b.to_vec())) } else { Err(Error::Invalid) } } }
pub mod ecdsa { pub struct Signature(pub [u8; 64]); impl Signature { pub fn from_compact(b: &[u8]) -> Result<Self, super::Error> { b.try_into().map(Signature).map_err(|_| super::Error::Invalid) } } }
impl<C> Secp256k1<C> { pub fn verify_ecdsa(&self, _m: &Message, _s: &ecdsa::Signature, _p: &PublicKey) -> Result<(), Error> { Err(Error::Invalid) } }
