#[derive(Debug, Clone, Copy, PartialEq, Eq)] pub enum Error { Invalid }
impl std::fmt::Display for Error { fn fmt(&self, f: &mut std::fmt::Formatter<'_>) -> std::fmt::Result { write!(f, "ed25519 error") } }
impl std::error::Error for Error {}
pub struct Signature([u8; 64]);
impl Signature { pub fn from_bytes(b: &[u8; 64]) -> Self { Signature(*b) } }
impl From<[u8; 64]> for Signature { fn from(b: [u8; 64]) -> Self { Signature(b) } }
impl TryFrom<&[u8]> for Signature { type Error = Error; fn try_from(b: &[u8]) -> Result<Self, Error> { b.try_into().map(Signature).map_err(|_| Error::Invalid) } }
pub struct VerificationKey(ed25519_dalek::VerifyingKey);
impl TryFrom<&[u8]> for VerificationKey { type Error = Error; fn try_from(b: &[u8]) -> Result<Self, Error> { let a: [u8; 32] = b.try_into().map_err(|_| Error::Invalid)?; Self::try_from(a) } }
impl TryFrom<[u8; 32]> for VerificationKey { type Error = Error; fn try_from(b: [u8; 32]) -> Result<Self, Error> { ed25519_dalek::VerifyingKey::from_bytes(&b).map(VerificationKey).map_err(|_| Error::Invalid) } }
impl VerificationKey { pub fn verify(&self, sig: &Signature, msg: &[u8]) -> Result<(), Error> { use ed25519_dalek::Verifier; self.0.verify(msg, &ed25519_dalek::Signature::from_bytes(&sig.0)).map_err(|_| Error::Invalid) } }
