use concordium_smart_contract_engine::v1::trie::*;
use std::collections::BTreeMap;

#[derive(Clone, Copy, Debug)]
enum Op { Ins(usize, usize), Del(usize), Refreeze }

fn main() {
    let keys: Vec<Vec<u8>> = vec![vec![], vec![0x12], vec![0x12, 0x34], vec![0x12, 0x35], vec![0x13], vec![0x12, 0x34, 0x56], vec![0x22]];
    let vals: Vec<Vec<u8>> = vec![vec![], vec![7], vec![9; 65]];
    let mut ops = vec![];
    for k in 0..keys.len() { for v in 0..vals.len() { ops.push(Op::Ins(k, v)); } ops.push(Op::Del(k)); }
    ops.push(Op::Refreeze);
    let depth: usize = std::env::args().nth(1).map(|x| x.parse().unwrap()).unwrap_or(4);
    let mut count = 0u64; let mut bad = 0u64;
    let mut idx = vec![0usize; depth];
    loop {
        // run sequence
        let mut loader = Loader::new(Vec::<u8>::new());
        let mut model: BTreeMap<Vec<u8>, Vec<u8>> = BTreeMap::new();
        let mut ms = PersistentState::Empty.thaw();
        for &i in &idx {
            match ops[i] {
                Op::Ins(k, v) => { let inner = ms.get_inner(&mut loader); inner.lock().insert(&mut loader, &keys[k], vals[v].clone()).unwrap(); model.insert(keys[k].clone(), vals[v].clone()); }
                Op::Del(k) => { let inner = ms.get_inner(&mut loader); let r = inner.lock().delete(&mut loader, &keys[k]).unwrap(); assert_eq!(r, model.remove(&keys[k]).is_some(), "delete result {:?}", idx); }
                Op::Refreeze => { let p = ms.freeze(&mut loader, &mut EmptyCollector); ms = p.thaw(); }
            }
        }
        let p = ms.freeze(&mut loader, &mut EmptyCollector);
        let reference = PersistentState::from_iterator(model.iter().map(|(k, v)| (&k[..], v.clone())));
        let h1 = p.hash(&mut loader); let h2 = reference.hash(&mut loader);
        let got: Vec<_> = p.clone().into_iterator(&mut loader).collect();
        let want: Vec<_> = model.iter().map(|(k, v)| (k.clone(), v.clone())).collect();
        count += 1;
        if h1 != h2 || got != want { bad += 1; if bad < 5 { println!("MISMATCH {:?} hash_eq={} contents_eq={}", idx.iter().map(|&i| ops[i]).collect::<Vec<_>>(), h1 == h2, got == want); } }
        // next
        let mut p = 0; loop { if p == depth { println!("sequences={count} bad={bad}"); return; } idx[p] += 1; if idx[p] < ops.len() { break; } idx[p] = 0; p += 1; }
    }
}
